(* C32 — Non-terminating tests time out without polluting later executions.   (PARTIAL)
   Only statements, closed by [exact]; model in Models/C32.v, proofs in Proofs/C32.v.

   Full statement of the property: "For every test case that does not terminate, execution reports a
   timeout within the configured bound (plus a grace period), and the abandoned execution never adds
   lines, branches or exceptions to the result of any test case executed afterwards."

   Proved here, for EVERY schedule (arbitrary list of tracer actions of any number of threads, not only
   program-order-respecting ones) and for both variants of __exit__ ([guard]):
     - no pollution: every event in a thread's trace / in the result harvested for its test comes from
       the import trace or from a probe executed by that very thread (frame property + invariant);
     - an abandoned thread is aborted at its next enabled probe or check and never records again;
     - a harvested result never changes afterwards; a timed-out test's result carries no events;
     - in model time, execute takes at most timeout + maximum_test_execution_timeout and reports a
       timeout for every thread that has not finished by the timeout.
   Missing for the full statement (outside any theorem, sampled by the real-thread runs only): that
   CPython's threading.local really is per-thread, GIL preemption between the bytecodes of one callback,
   wall-clock behaviour of Thread.join, code that never reaches a probe after being abandoned (C-level
   blocking: the thread lingers but still records nothing), and the process-global patches an abandoned
   thread holds (FilesystemIsolation, stdout redirection).  Hence the names [..._partial]. *)
From Coq Require Import List ZArith Bool.
From Verif Require Import Models.C32 Proofs.C32.
Import ListNotations. Import C32. Open Scope Z_scope.

(* An action touches only the thread-local state of the thread that performs it. *)
Theorem C32_frame_partial : forall s a u, actor a <> Some u -> loc (step s a) u = loc s u.
Proof. exact step_frame. Qed.
Print Assumptions C32_frame_partial.

(* No cross-thread pollution, in every schedule: whatever is in thread u's trace was recorded by u. *)
Theorem C32_no_pollution_trace_partial : forall g im sched u e,
  In e (trace (loc (run (init_state g im) sched) u)) ->
  In e im \/ exists a, In a sched /\ (a = Probe u e \/ a = HookEnd u e).
Proof. exact no_pollution_trace. Qed.
Print Assumptions C32_no_pollution_trace_partial.

(* ... and so is whatever is in the result the executor returned for u's test. *)
Theorem C32_no_pollution_result_partial : forall g im sched u l,
  results (run (init_state g im) sched) u = Some (ROk l) ->
  forall e, In e l -> In e im \/ exists a, In a sched /\ (a = Probe u e \/ a = HookEnd u e).
Proof. exact no_pollution_result. Qed.
Print Assumptions C32_no_pollution_result_partial.

Theorem C32_foreign_events_never_added_partial : forall g im sched u l e,
  results (run (init_state g im) sched) u = Some (ROk l) ->
  ~ In e im -> ~ In (Probe u e) sched -> ~ In (HookEnd u e) sched -> ~ In e l.
Proof. exact foreign_events_never_added. Qed.
Print Assumptions C32_foreign_events_never_added_partial.

(* A result, once returned, is never changed by anything that happens later (abandoned threads included). *)
Theorem C32_result_stable_partial : forall sched s u r,
  results s u = Some r -> results (run s sched) u = Some r.
Proof. exact run_result_stable. Qed.
Print Assumptions C32_result_stable_partial.

(* The abandoned thread dies: once it is not the current thread, its next enabled probe (or bare check)
   raises TracingAbortedException and records nothing ... *)
Theorem C32_zombie_dies_partial : forall s t e,
  is_live (loc s t) = true -> enabled (loc s t) = true -> is_current s t = false ->
  st (loc (step s (Probe t e)) t) = Aborting
  /\ trace (loc (step s (Probe t e)) t) = trace (loc s t)
  /\ raises s (Probe t e) = true.
Proof. exact probe_aborts. Qed.
Print Assumptions C32_zombie_dies_partial.

Theorem C32_zombie_check_dies_partial : forall s t,
  is_live (loc s t) = true -> is_current s t = false ->
  st (loc (step s (Check t)) t) = Aborting /\ trace (loc (step s (Check t)) t) = trace (loc s t).
Proof. exact check_aborts. Qed.
Print Assumptions C32_zombie_check_dies_partial.

(* ... which is its situation after the main thread's stop() and after any later test entered the
   tracer; from then on its trace never grows, in every continuation of the schedule. *)
Theorem C32_abandoned_records_nothing_partial : forall s t sched,
  st (loc s t) <> Fresh -> ~ In (Enter t) sched -> (forall e, ~ In (HookEnd t e) sched) ->
  trace (loc (run (step s Stop) sched) t) = trace (loc s t).
Proof. exact abandoned_records_nothing. Qed.
Print Assumptions C32_abandoned_records_nothing_partial.

Theorem C32_superseded_records_nothing_partial : forall s t t' sched,
  t' <> t -> st (loc s t) <> Fresh -> is_live (loc s t') = true -> ~ In (Enter t) sched ->
  (forall e, ~ In (HookEnd t e) sched) ->
  trace (loc (run (step s (Enter t')) sched) t) = trace (loc s t).
Proof. exact superseded_records_nothing. Qed.
Print Assumptions C32_superseded_records_nothing_partial.

Theorem C32_dead_is_frozen_partial : forall s t sched, dead (loc s t) = true ->
  trace (loc (run s sched) t) = trace (loc s t) /\ dead (loc (run s sched) t) = true.
Proof. exact dead_is_frozen. Qed.
Print Assumptions C32_dead_is_frozen_partial.

(* Schedule points INSIDE a predicate callback (HookBegin = gate + temporarily_disable, then an operator of
   the code under test runs, HookEnd = enable + record).  A thread abandoned while it is blocked in such an
   operator completes the recording when it resumes: the event goes to ITS OWN trace only — no other
   thread's state, no result, no tracer-wide state changes — and its next gate aborts it. *)
Theorem C32_pending_hook_records_locally_partial : forall s t e,
  st (loc s t) = InHook ->
  trace (loc (step s (HookEnd t e)) t) = trace (loc s t) ++ [e]
  /\ (forall u, u <> t -> loc (step s (HookEnd t e)) u = loc s u)
  /\ results (step s (HookEnd t e)) = results s
  /\ current (step s (HookEnd t e)) = current s
  /\ imp (step s (HookEnd t e)) = imp s.
Proof. exact pending_hook_records_locally. Qed.
Print Assumptions C32_pending_hook_records_locally_partial.

Theorem C32_resumed_zombie_dies_partial : forall s t e e', zombie s t -> st (loc s t) = InHook ->
  let s1 := step s (HookEnd t e) in
  st (loc (step s1 (HookBegin t)) t) = Aborting
  /\ st (loc (step s1 (Probe t e')) t) = Aborting
  /\ trace (loc (step s1 (Probe t e')) t) = trace (loc s t) ++ [e].
Proof. exact resumed_zombie_dies. Qed.
Print Assumptions C32_resumed_zombie_dies_partial.

(* the zombie invariant (started, and not current while it can act) survives every continuation in which
   the thread does not re-enter the tracer, pending hook completions included *)
Theorem C32_zombie_invariant_partial : forall sched s t,
  zombie s t -> ~ In (Enter t) sched -> zombie (run s sched) t.
Proof. exact zombie_run_inv. Qed.
Print Assumptions C32_zombie_invariant_partial.

(* Model time of TestCaseExecutor.execute: bounded by timeout + grace, timeout reported for every thread
   that did not finish in time, in particular for every non-terminating one. *)
Theorem C32_timeout_bound_partial : forall tmo maxT fin, 0 <= tmo -> 0 <= maxT ->
  (forall d, fin = Some d -> 0 <= d) -> 0 <= exec_duration tmo maxT fin <= tmo + maxT.
Proof. exact exec_duration_bound. Qed.
Print Assumptions C32_timeout_bound_partial.

Theorem C32_nonterminating_times_out_partial : forall tmo maxT,
  exec_timeout tmo None = true /\ exec_duration tmo maxT None = tmo + maxT.
Proof. exact nonterminating_times_out. Qed.
Print Assumptions C32_nonterminating_times_out_partial.

(* __exit__: with the ownership guard a foreign thread's exit leaves the current thread alone; without
   it (the code as it is) it revokes it — see Proofs/C32.v, Example later_test_can_be_aborted: a later,
   terminating test can then be reported as a timeout.  Nothing is added to any result either way. *)
Theorem C32_guarded_exit_keeps_current : forall s t, guard s = true -> is_current s t = false ->
  current (step s (Exit t)) = current s.
Proof. exact guarded_exit_keeps_current. Qed.
Print Assumptions C32_guarded_exit_keeps_current.

Theorem C32_unguarded_exit_revokes : forall s t u, guard s = false ->
  st (loc s t) = Live \/ st (loc s t) = Aborting -> is_current (step s (Exit t)) u = false.
Proof. exact unguarded_exit_revokes. Qed.
Print Assumptions C32_unguarded_exit_revokes.
