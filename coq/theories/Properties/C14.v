(* C14 — Ranking and selection operators honour their contracts.
   Only statements, closed by [exact]; model in Models/C14.v (ranking, crowding, binary64 rank
   selection) and Models/C14_real.v (rank selection formula over R); proofs in Proofs/C14*.v.

   Vocabulary (Proofs/C14.v): [dominates goals a b] = a is nowhere worse and somewhere strictly
   better than b on the goals; [ndb goals l x] = no member of l dominates x; [consistent l] = equal
   (==) chromosomes of l have the same fitness row and length; [lexle g a b] = (fitness for g,
   length) of a is lexicographically at most that of b; [chain goals rem fs] = every front of fs is
   exactly the list of non-dominated members of what the earlier fronts left over. *)
From Coq Require Import List ZArith Reals Permutation.
From Verif Require Import Models.C14 Proofs.C14 Models.C14_real Proofs.C14_real.
Import ListNotations. Import C14.

Open Scope Z_scope.

(* DominanceComparator.compare decides Pareto dominance, which is a strict partial order. *)
Theorem C14_dominance_compare : forall goals a b,
  (dom_compare goals a b = -1 <-> dominates goals a b) /\
  (dom_compare goals a b = 1 <-> dominates goals b a) /\
  (dom_compare goals a b = 0 <-> ~ dominates goals a b /\ ~ dominates goals b a).
Proof. exact dom_compare_meaning. Qed.
Print Assumptions C14_dominance_compare.

Theorem C14_dominance_strict_order : forall goals,
  (forall a, ~ dominates goals a a) /\
  (forall a b c, dominates goals a b -> dominates goals b c -> dominates goals a c).
Proof. exact (fun goals => conj (dominates_irrefl goals) (dominates_trans goals)). Qed.
Print Assumptions C14_dominance_strict_order.

(* The first front holds a best individual for every uncovered goal — for every population
   (duplicates and ties included), every goal list and every outcome of the tie-breaking coins. *)
Theorem C14_zero_front_has_best : forall goals sols coins g,
  sols <> [] -> consistent sols -> In g goals ->
  exists x, In x (zero_front goals sols coins) /\ In x sols /\ forall y, In y sols -> lexle g x y.
Proof. exact zero_front_has_best. Qed.
Print Assumptions C14_zero_front_has_best.

(* _get_non_dominated_solutions returns exactly the non-dominated members, in population order. *)
Theorem C14_front_exact : forall goals sols,
  consistent sols -> nds goals sols = filter (ndb goals sols) sols.
Proof. exact nds_exact. Qed.
Print Assumptions C14_front_exact.

Theorem C14_front_members : forall goals sols x, consistent sols ->
  (In x (nds goals sols) <-> In x sols /\ forall t, In t sols -> ~ dominates goals t x).
Proof. exact nds_members. Qed.
Print Assumptions C14_front_members.

(* "not yet ranked": removing a front with list.remove leaves exactly the other individuals. *)
Theorem C14_not_yet_ranked : forall (P : ind -> bool) l,
  consistent l -> remove_list (filter P l) l = filter (fun x => negb (P x)) l.
Proof. exact remove_filter. Qed.
Print Assumptions C14_not_yet_ranked.

(* Each later front is exactly the set of non-dominated individuals among those not yet ranked,
   as long as the zero front does not already fill the configured population ...

   FULL STATEMENT (without the hypothesis on the zero front) is FALSE for the code as it is:
   see C14_later_fronts_refuted.  Known finding `ranking:full-zero-front`. *)
Theorem C14_later_fronts_partial : forall goals pop sols coins,
  sols <> [] -> consistent sols ->
  Z.of_nat (length (zero_front goals sols coins)) < pop ->
  exists fs, ranking goals pop sols coins = zero_front goals sols coins :: fs /\
             chain goals (remove_list (zero_front goals sols coins) sols) fs.
Proof. exact ranking_fronts. Qed.
Print Assumptions C14_later_fronts_partial.

(* ... and the loop that produces them never runs out of the model's fuel. *)
Theorem C14_later_fronts_fuel : forall fuel goals pop ranked rem,
  consistent rem -> (length rem <= fuel)%nat ->
  later_fronts fuel goals pop ranked rem = later_fronts (length rem) goals pop ranked rem.
Proof. exact later_fronts_fuel. Qed.
Print Assumptions C14_later_fronts_fuel.

(* With room for everybody the fronts partition the population: every individual is in exactly one
   front.  The model's individuals have no rank/distance attribute at all — in the code these are
   outputs only — so this (and every other theorem here) is independent of whatever rank/distance
   the chromosomes carry from earlier rounds or from clone(); the correspondence runs feed the real
   operators chromosomes with arbitrary stale rank/distance values and re-rank the same objects over
   several rounds, and require the model's (attribute-free) answer. *)
Theorem C14_fronts_partition : forall goals pop sols coins,
  sols <> [] -> consistent sols ->
  Z.of_nat (length (zero_front goals sols coins)) < pop -> Z.of_nat (length sols) <= pop ->
  Permutation (concat (ranking goals pop sols coins)) sols.
Proof. exact ranking_partition. Qed.
Print Assumptions C14_fronts_partition.

(* When the zero front fills the population, the remainder is returned as one unsorted front. *)
Theorem C14_later_fronts_refuted :
  exists goals pop sols coins,
    sols <> [] /\ consistent sols /\
    ~ (exists fs, ranking goals pop sols coins = zero_front goals sols coins :: fs /\
                  chain goals (remove_list (zero_front goals sols coins) sols) fs).
Proof. exact ranking_full_zero_front_refuted. Qed.
Print Assumptions C14_later_fronts_refuted.

(* Crowding distances num/len(front) lie in [0, 1): 0 <= num < len(front), for every front and
   goal list (no hypothesis). *)
Theorem C14_crowding_in_unit : forall goals front,
  Forall (fun num => 0 <= num < Z.of_nat (length front)) (crowding goals front) /\
  length (crowding goals front) = length front.
Proof. exact crowding_in_unit. Qed.
Print Assumptions C14_crowding_in_unit.

(* Rank selection, binary64 as executed: for ANY bias, random value, value of bias**2 and
   rounding, a returned index lies inside the population. *)
Theorem C14_rank_index_in_range : forall n b bsq r i,
  1 <= n -> get_index n b bsq r = Idx i -> 0 <= i < n.
Proof. exact get_index_in_range. Qed.
Print Assumptions C14_rank_index_in_range.

Open Scope R_scope.
Import C14R.

(* Rank selection, the formula over the reals, for every bias above 1 (the documented range is
   [1, 2]; 1 is the uniform special case) and every random value in [0, 1):
   the index n*g is in range, ... *)
Theorem C14_rank_real_in_range : forall b r n,
  1 < b -> 0 <= r < 1 -> 0 < n -> 0 <= n * g b r < n.
Proof. exact index_in_range. Qed.
Print Assumptions C14_rank_real_in_range.

(* ... grows with the random value, ... *)
Theorem C14_rank_real_monotone : forall b r1 r2,
  1 < b -> 0 <= r1 -> r1 <= r2 -> r2 < 1 -> g b r1 <= g b r2.
Proof. exact g_monotone. Qed.
Print Assumptions C14_rank_real_monotone.

(* ... index i is selected exactly for r in [h(i/n), h((i+1)/n)) (all i when b <= 2; the indices
   below the cut-off n/(b-1) when b > 2, nothing above it is ever selected) ... *)
Theorem C14_rank_real_selects : forall b r n i,
  1 < b -> 0 <= r < 1 -> 0 < n -> 0 <= i -> i + 1 <= n -> (b - 1) * (i + 1) <= n ->
  (selects b r n i <-> h b (i / n) <= r < h b ((i + 1) / n)).
Proof. exact selects_iff. Qed.
Print Assumptions C14_rank_real_selects.

Theorem C14_rank_real_cutoff : forall b r, 1 < b -> 0 <= r < 1 -> (b - 1) * g b r < 1.
Proof. exact g_cutoff. Qed.
Print Assumptions C14_rank_real_cutoff.

(* ... and these intervals never grow with the rank: a worse rank is never preferred. *)
Theorem C14_rank_real_no_worse_preferred : forall b n i, 1 <= b -> 0 < n ->
  h b ((i + 2) / n) - h b ((i + 1) / n) <= h b ((i + 1) / n) - h b (i / n).
Proof. exact widths_nonincreasing. Qed.
Print Assumptions C14_rank_real_no_worse_preferred.
