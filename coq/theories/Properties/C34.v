(* C34 — Ordered sets behave as insertion-ordered sets and sequences.
   Only statements, closed by [exact]; see Models/C34.v (model) and Proofs/C34.v (proofs). *)
From Coq Require Import List ZArith.
From Verif Require Import Models.C34 Proofs.C34.
Import ListNotations. Import C34. Open Scope Z_scope.

(* Every reachable state is duplicate free (it is a set), for every history. *)
Theorem C34_set_invariant : forall init ops, NoDup (run init ops).
Proof. exact run_NoDup. Qed.
Print Assumptions C34_set_invariant.

(* Every history leaves the state of the reference model "mathematical set + first-insertion
   order": surviving elements keep their relative order, new elements follow in the order of their
   first insertion. *)
Theorem C34_refines_reference : forall init ops,
  Forall wf_op ops -> run init ops = fold_left ref_step ops (dedup [] init).
Proof. exact run_refines_reference. Qed.
Print Assumptions C34_refines_reference.

Theorem C34_membership : forall l o y, wf_op o ->
  (In y (fst (step l o)) <->
   (In y l /\ survives o l y = true) \/ (In y (cands o) /\ ~ In y l)).
Proof. exact membership_spec. Qed.
Print Assumptions C34_membership.

(* Sequence protocol including negative indices. *)
Theorem C34_getitem_in_range : forall l i, - len l <= i < len l ->
  exists x, getitem l i = OInt x /\ nth_error l (Z.to_nat (i mod len l)) = Some x.
Proof. exact getitem_in_range. Qed.
Print Assumptions C34_getitem_in_range.

Theorem C34_getitem_out_of_range : forall l i,
  ~ (- len l <= i < len l) -> getitem l i = OErr IndexError.
Proof. exact getitem_out_of_range. Qed.
Print Assumptions C34_getitem_out_of_range.

(* Set queries against arbitrary iterables. *)
Theorem C34_issubset : forall l it, NoDup l ->
  (issubset l it = true <-> forall x, In x l -> In x (content it)).
Proof. exact issubset_spec. Qed.
Print Assumptions C34_issubset.

Theorem C34_issuperset : forall l it, wf_it it ->
  (issuperset l it = true <-> forall x, In x (content it) -> In x l).
Proof. exact issuperset_spec. Qed.
Print Assumptions C34_issuperset.

Theorem C34_union : forall l its,
  snd (step l (Union its)) = OList (l ++ dedup l (concat (map content its))).
Proof. exact union_spec. Qed.
Print Assumptions C34_union.

Theorem C34_symmetric_difference : forall l it,
  snd (step l (SymDiff it)) = OList (drop_in l (content it) ++ dedup l (content it)).
Proof. exact symdiff_spec. Qed.
Print Assumptions C34_symmetric_difference.

Theorem C34_intersection : forall l its y, its <> [] ->
  (In y (keep_in l (inter_all (map content its))) <->
   In y l /\ forall it, In it its -> In y (content it)).
Proof. exact intersection_members. Qed.
Print Assumptions C34_intersection.

(* Arguments are traversed once: a one-shot iterator behaves like a list with the same items. *)
Theorem C34_one_traversal : forall l o, NoDup l ->
  step l (retag KIter o) = step l (retag KList o).
Proof. exact one_traversal. Qed.
Print Assumptions C34_one_traversal.
