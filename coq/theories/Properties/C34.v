(* C34 — Ordered sets behave as insertion-ordered sets and sequences.
   Only statements, closed by [exact]; see Models/C34.v (model) and Proofs/C34.v (proofs). *)
From Coq Require Import List ZArith.
From Verif Require Import Models.C34 Proofs.C34 Models.C34Heap Proofs.C34Heap.
Import ListNotations. Import C34. Import C34H. Open Scope Z_scope.

(* Every reachable state is duplicate free (it is a set), for every history. *)
Theorem C34_set_invariant : forall init ops, NoDup (run init ops).
Proof. exact run_NoDup. Qed.
Print Assumptions C34_set_invariant.

(* Every history leaves the state of the reference model "mathematical set + first-insertion
   order": surviving elements keep their relative order, new elements follow in the order of their
   first insertion. *)
Theorem C34_refines_reference : forall init ops,
  Forall wf_op ops -> run init ops = fold_left ref_step ops (dedup [] init).
Proof. exact run_refines_reference. Qed.
Print Assumptions C34_refines_reference.

Theorem C34_membership : forall l o y, wf_op o ->
  (In y (fst (step l o)) <->
   (In y l /\ survives o l y = true) \/ (In y (cands o) /\ ~ In y l)).
Proof. exact membership_spec. Qed.
Print Assumptions C34_membership.

(* Sequence protocol including negative indices. *)
Theorem C34_getitem_in_range : forall l i, - len l <= i < len l ->
  exists x, getitem l i = OInt x /\ nth_error l (Z.to_nat (i mod len l)) = Some x.
Proof. exact getitem_in_range. Qed.
Print Assumptions C34_getitem_in_range.

Theorem C34_getitem_out_of_range : forall l i,
  ~ (- len l <= i < len l) -> getitem l i = OErr IndexError.
Proof. exact getitem_out_of_range. Qed.
Print Assumptions C34_getitem_out_of_range.

(* Set queries against arbitrary iterables. *)
Theorem C34_issubset : forall l it, NoDup l ->
  (issubset l it = true <-> forall x, In x l -> In x (content it)).
Proof. exact issubset_spec. Qed.
Print Assumptions C34_issubset.

Theorem C34_issuperset : forall l it, wf_it it ->
  (issuperset l it = true <-> forall x, In x (content it) -> In x l).
Proof. exact issuperset_spec. Qed.
Print Assumptions C34_issuperset.

Theorem C34_union : forall l its,
  snd (step l (Union its)) = OList (l ++ dedup l (concat (map content its))).
Proof. exact union_spec. Qed.
Print Assumptions C34_union.

Theorem C34_symmetric_difference : forall l it,
  snd (step l (SymDiff it)) = OList (drop_in l (content it) ++ dedup l (content it)).
Proof. exact symdiff_spec. Qed.
Print Assumptions C34_symmetric_difference.

Theorem C34_intersection : forall l its y, its <> [] ->
  (In y (keep_in l (inter_all (map content its))) <->
   In y l /\ forall it, In it its -> In y (content it)).
Proof. exact intersection_members. Qed.
Print Assumptions C34_intersection.

(* Arguments are traversed once: a one-shot iterator behaves like a list with the same items. *)
Theorem C34_one_traversal : forall l o, NoDup l ->
  step l (retag KIter o) = step l (retag KList o).
Proof. exact one_traversal. Qed.
Print Assumptions C34_one_traversal.

(* Sequence protocol: index(value, start, stop) with negative bounds.  On a set the answer is the
   position of the value exactly when it lies in the normalised window, otherwise ValueError. *)
Theorem C34_index_range_exact : forall l x start stop p, NoDup l -> 0 <= p ->
  norm_start (len l) start <= p < norm_stop (len l) stop -> nth_error l (Z.to_nat p) = Some x ->
  index_range l x start stop = OInt p.
Proof. exact index_range_exact. Qed.
Print Assumptions C34_index_range_exact.

Theorem C34_index_range_sound : forall l x start stop p,
  index_range l x start stop = OInt p ->
  norm_start (len l) start <= p < norm_stop (len l) stop /\ nth_error l (Z.to_nat p) = Some x.
Proof. exact index_range_sound. Qed.
Print Assumptions C34_index_range_sound.

Theorem C34_index_range_total : forall l x start stop,
  (exists q, index_range l x start stop = OInt q) \/ index_range l x start stop = OErr ValueError.
Proof. exact index_range_total. Qed.
Print Assumptions C34_index_range_total.

(* ---- several objects (Models/C34Heap.v): ordered sets are values ---- *)

(* The value of a mutable object after ANY history over a store of objects (constructors from other
   objects, copies, freezes, operations on other objects, operations that take it as argument) is
   the single-object run of exactly the operations applied to it: nothing else can reach it. *)
Theorem C34_objects_independent : forall ops h j ob,
  nth_error h j = Some ob -> frozen ob = false ->
  nth_error (hrun h ops) j =
    Some {| frozen := false; items := fold_left (fun l o => fst (step l o)) (proj j ops) (items ob) |}.
Proof. exact hrun_independent. Qed.
Print Assumptions C34_objects_independent.

(* A frozen object keeps its value for ever, whatever is built from it or applied to it. *)
Theorem C34_frozen_immutable : forall ops h j ob,
  nth_error h j = Some ob -> frozen ob = true -> nth_error (hrun h ops) j = Some ob.
Proof. exact hrun_frozen. Qed.
Print Assumptions C34_frozen_immutable.

(* OrderedSet(x) / FrozenOrderedSet(x) / copy / freeze of a reachable object has exactly its value. *)
Theorem C34_copy_same_value : forall h i fr ob, heap_ok h ->
  nth_error h i = Some ob ->
  nth_error (fst (hstep h (HNewFrom i fr))) (length h) = Some {| frozen := fr; items := items ob |}.
Proof. exact hstep_copy_same_value. Qed.
Print Assumptions C34_copy_same_value.

(* Every object of every reachable store is duplicate free. *)
Theorem C34_store_invariant : forall ops h, heap_ok h -> heap_ok (hrun h ops).
Proof. exact hrun_ok. Qed.
Print Assumptions C34_store_invariant.
