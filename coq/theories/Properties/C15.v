(* C15 — Variation operators keep every test case well-formed.
   Only statements, closed by [exact]; model in Base/TestCaseIR.v + Models/C15.v, proofs in
   Base/TestCaseIR{Facts,Fwd,Append,Ruv}.v and Proofs/C15.v.

   WF t = every variable read is bound by an earlier statement /\ bound names are unique /\ the
   per-type registry equals the registry rebuilt from the statements /\ every bound name is below
   the variable counter (so next_var_name hands out a new name). *)
From Coq Require Import List NArith ZArith Bool.
From Verif Require Import Base.TestCaseIR Base.TestCaseIRFacts Base.TestCaseIRFwd
  Base.TestCaseIRAppend Base.TestCaseIRRuv Models.C15 Proofs.C15.
Import ListNotations. Import IR. Import C15.

(* The decidable test evaluated on every abstracted real test case is exactly WF. *)
Theorem C15_wfb_decides_WF : forall t, wfb t = true <-> WF t.
Proof. exact wfb_spec. Qed.
Print Assumptions C15_wfb_decides_WF.

(* Every container operation preserves WF when its (decidable) precondition holds ... *)
Theorem C15_step_preserves_WF : forall t o, WF t -> op_okb t o = true -> WF (step t o).
Proof. exact step_WF. Qed.
Print Assumptions C15_step_preserves_WF.

(* ... hence every history of insertions, deletions, replacements, chops, clones, graceful
   deletions, appends from other test cases and unused-variable removals does, whatever its length. *)
Theorem C15_histories_preserve_WF : forall ops t, WF t -> ops_okb t ops = true -> WF (run t ops).
Proof. exact run_WF. Qed.
Print Assumptions C15_histories_preserve_WF.

(* Deletion with forward dependencies, chopping, cloning, name allocation, unused-variable removal
   and appending (the tail of) another well-formed test case need no precondition. *)
Theorem C15_unconditional_operations : forall t,
  WF t ->
  (forall p, WF (chop t p)) /\ WF (clone t) /\ WF (snd (next_var_name t)) /\
  (forall i, WF (remove_fwd false t i)) /\ (forall i, WF (remove_fwd true t i)) /\
  WF (remove_unused_variables t) /\
  (forall other start o, WF other -> WF (append_test_case_from t other start o)).
Proof. exact unconditional_ops_WF. Qed.
Print Assumptions C15_unconditional_operations.

(* On well-formed test cases the `while changed` loops of forward_dependencies and
   delete_statement_gracefully compute what one forward sweep computes. *)
Theorem C15_forward_closure_single_pass : forall strict t i s0,
  WF t -> nth_error (stmts t) i = Some s0 ->
  fwd_marks strict (stmts t) i = sweep (bv s0) (skipn (S i) (stmts t)).
Proof. exact forward_closure_single_pass. Qed.
Print Assumptions C15_forward_closure_single_pass.

(* clone() yields an independent test case: its registry is rebuilt from its own statements (not
   shared with the original's), operations on the clone leave the original unchanged and vice
   versa (the model treats test cases as values; the harness checks on the real objects that a
   call on one test case changes no other live test case), and both stay well-formed. *)
Theorem C15_clone_registry_independent : forall t, reg (clone t) = rebuild (stmts t).
Proof. exact clone_registry_independent. Qed.
Print Assumptions C15_clone_registry_independent.

Theorem C15_clone_independent : forall t ops,
  fst (run_on_clone (clone_pair t) ops) = t /\ snd (run_on_clone (clone_pair t) ops) = run (clone t) ops
  /\ snd (run_on_orig (clone_pair t) ops) = clone t.
Proof. exact clone_independent. Qed.
Print Assumptions C15_clone_independent.

Theorem C15_clone_pair_WF : forall t ops1 ops2,
  WF t -> ops_okb t ops1 = true -> ops_okb (clone t) ops2 = true ->
  WF (run t ops1) /\ WF (run (clone t) ops2).
Proof. exact clone_pair_WF. Qed.
Print Assumptions C15_clone_pair_WF.

(* Local search with rollback (different-datatype search, search on calls): when no attempt
   improves the objective the test case is exactly what it was, whatever the factory did in between
   (e.g. inserted dependency statements); otherwise it is the accepted, well-formed proposal. *)
Theorem C15_local_search_rejected_restores : forall t atts,
  WF t -> snd (ls_search t atts) = false -> fst (ls_search t atts) = t.
Proof. exact ls_rejected_restores. Qed.
Print Assumptions C15_local_search_rejected_restores.

Theorem C15_local_search_WF : forall t atts,
  WF t -> Forall (fun a => WF (fst a)) atts -> WF (fst (ls_search t atts)).
Proof. exact ls_search_WF. Qed.
Print Assumptions C15_local_search_WF.

(* Crossover (splice_test_case_chromosomes), for every pair of split points and every outcome of
   the random choices: the offspring is well-formed, and it is either shorter than the configured
   maximum or the parent is kept unchanged. *)
Theorem C15_crossover_WF : forall maxlen parent other p1 p2 o,
  WF parent -> WF other -> WF (crossover maxlen parent other p1 p2 o).
Proof. exact crossover_WF. Qed.
Print Assumptions C15_crossover_WF.

Theorem C15_crossover_length : forall maxlen parent other p1 p2 o,
  size (crossover maxlen parent other p1 p2 o) < maxlen
  \/ crossover maxlen parent other p1 p2 o = parent.
Proof. exact crossover_length. Qed.
Print Assumptions C15_crossover_length.

(* Appending never touches the statements already present and adds at most the tail. *)
Theorem C15_append_prefix : forall self other start o,
  firstn (size self) (stmts (append_test_case_from self other start o)) = stmts self.
Proof. exact append_from_prefix. Qed.
Print Assumptions C15_append_prefix.

(* Insertion mutation (after fix C15-insertion-bound): whatever the factory inserts, the loop
   never leaves a test case longer than max(previous size, configured maximum), and the result is
   one of the well-formed proposals or the original. *)
Theorem C15_insertion_length : forall maxlen ps t,
  size (insert_loop maxlen t ps) <= Nat.max (size t) maxlen.
Proof. exact insert_loop_bound. Qed.
Print Assumptions C15_insertion_length.

Theorem C15_insertion_WF : forall maxlen ps t,
  WF t -> Forall WF ps -> WF (insert_loop maxlen t ps).
Proof. exact insert_loop_WF. Qed.
Print Assumptions C15_insertion_WF.

(* The code before the fix violates the length clause (finding, kept in the corpus). *)
Theorem C15_insertion_length_unfixed_refuted : exists maxlen t ps,
  WF t /\ Forall WF ps /\ size (insert_loop_orig maxlen t ps) > Nat.max (size t) maxlen.
Proof. exact insert_loop_orig_exceeds. Qed.
Print Assumptions C15_insertion_length_unfixed_refuted.
