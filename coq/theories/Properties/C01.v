(* C01 — Instrumentation does not change the behaviour of the module under test (partial).
   Only statements, closed by [exact]; model in Models/C01.v, proofs in Proofs/C01.v.
   [snippet_ok s] itself is proved for EVERY snippet the real generator emitted on this run in the
   regenerated file build/C01/C01_snippets.v (one lemma per snippet, checked by coqc each run).

   Outside these theorems (sampled by the differential oracle only): CPython's execution of
   everything that is not an inserted snippet, bytecode's re-assembly, and the purity of the tracer
   callbacks (C04/C05). *)
From Coq Require Import List ZArith.
From Verif Require Import Models.C01 Proofs.C01.
Import ListNotations. Import C01.

(* A probe that does not replace an instruction leaves the stack exactly as it found it, for all
   subject values, all stack contents and all depths the snippet may legally be placed at. *)
Theorem C01_snippet_neutral : forall s, snippet_ok s -> s_orig s = None ->
  forall (V : Type) (st : stack V), need s <= length st ->
    exists evs, exec (s_code s) st = Some (st, evs).
Proof. exact snippet_neutral. Qed.
Print Assumptions C01_snippet_neutral.

(* A probe that replaces an instruction executes that instruction on the same operands and leaves
   the stack the instruction alone would leave. *)
Theorem C01_override_same_effect : forall s p q, snippet_ok s -> s_orig s = Some (p, q) ->
  forall (V : Type) (st : stack V), need s <= length st ->
    exists st' evs args,
      exec (s_code s) st = Some (st', evs) /\
      exec [ORIG p q] st = Some (st', [EOrig args]) /\
      In (EOrig args) evs.
Proof. exact override_same_effect. Qed.
Print Assumptions C01_override_same_effect.

(* Exactly one call is made, to the method of the object the snippet loaded first, and it receives
   the intended cells: constants in order, FIRST/SECOND as documented for the setup action. *)
Theorem C01_snippet_args : forall s, snippet_ok s ->
  forall (V : Type) (st : stack V), need s <= length st ->
    exists evs st' l,
      exec (s_code s) st = Some (st', evs) /\
      expected_args (s_action s) (pushes s) st (s_args s) 1%N = Some l /\
      filter is_call evs = [ECall 0%N l].
Proof. exact snippet_args. Qed.
Print Assumptions C01_snippet_args.

Theorem C01_stack_args_intended : forall V a q (st : stack V) args k l n i,
  expected_args a q st args k = Some l -> nth_error args n = Some (AStack i) ->
  exists v, intended a q i st = Some v /\ nth_error l n = Some v.
Proof. exact stack_args_intended. Qed.
Print Assumptions C01_stack_args_intended.

(* Observation only: unless the setup action is ADD_FIRST_TWO(_REVERSED), which no adapter uses
   after the repair, no operator is applied to a subject value. *)
Theorem C01_snippet_observes_only : forall s, snippet_ok s -> adds (s_action s) = false ->
  forall (V : Type) (st : stack V), need s <= length st ->
    exists evs st', exec (s_code s) st = Some (st', evs) /\ filter is_user_op evs = [].
Proof. exact snippet_observes_only. Qed.
Print Assumptions C01_snippet_observes_only.

(* The seeding probe of startswith/endswith before the repair did apply + to subject values. *)
Theorem C01_old_seeding_probe_refuted :
  exists (st : stack nat) st' evs, exec (s_code old_startswith) st = Some (st', evs) /\
                                   In (EUserOp (SUT 0) (SUT 1)) evs.
Proof. exact old_startswith_applies_operator. Qed.
Print Assumptions C01_old_seeding_probe_refuted.

(* Placement (Model A'): with instruction indices translated by BasicBlockNode.before/after/
   override, a snippet lands immediately before / after / in place of the instruction the index
   was computed for, whatever pseudo-instructions the raw block holds; everything else stays. *)
Theorem C01_placed_before_target : forall A (l : list (relem A)) (i : Z) n x (snip : list A),
  norm (length (instrs l)) i = Some n -> nth_error (instrs l) n = Some x ->
  exists l1 l2, l = l1 ++ RI x :: l2 /\ length (instrs l1) = n /\
                insert_before l i snip = Some (l1 ++ map RI snip ++ RI x :: l2).
Proof. exact placed_before_target. Qed.
Print Assumptions C01_placed_before_target.

Theorem C01_placed_after_target : forall A (l : list (relem A)) (i : Z) n x (snip : list A),
  norm (length (instrs l)) i = Some n -> nth_error (instrs l) n = Some x ->
  exists l1 l2, l = l1 ++ RI x :: l2 /\ length (instrs l1) = n /\
                insert_after l i snip = Some (l1 ++ RI x :: map RI snip ++ l2).
Proof. exact placed_after_target. Qed.
Print Assumptions C01_placed_after_target.

Theorem C01_placed_over_target : forall A (l : list (relem A)) (i : Z) n x (snip : list A),
  norm (length (instrs l)) i = Some n -> nth_error (instrs l) n = Some x ->
  exists l1 l2, l = l1 ++ RI x :: l2 /\ length (instrs l1) = n /\
                override l i snip = Some (l1 ++ map RI snip ++ l2).
Proof. exact placed_over_target. Qed.
Print Assumptions C01_placed_over_target.

Theorem C01_instruction_view_of_insertion : forall A (l : list (relem A)) (i : Z) n x (snip : list A) l',
  norm (length (instrs l)) i = Some n -> nth_error (instrs l) n = Some x ->
  insert_before l i snip = Some l' ->
  instrs l' = firstn n (instrs l) ++ snip ++ skipn n (instrs l).
Proof. exact before_view. Qed.
Print Assumptions C01_instruction_view_of_insertion.

(* The placement before the repair (instruction index used as raw position). *)
Theorem C01_raw_placement_refuted :
  exists (l : list (relem nat)) n x, nth_error (instrs l) n = Some x /\
    forall l1 l2, l = l1 ++ RI x :: l2 -> insert_before_raw l n [7] <> l1 ++ [RI 7] ++ RI x :: l2.
Proof. exact raw_placement_refuted. Qed.
Print Assumptions C01_raw_placement_refuted.

(* Seeding side of callback purity: DynamicConstantProvider.add_value / add_value_for_strings /
   add_concatenated_value (as modelled, and tied by replaying every class pair on the real provider
   inside Coq) apply operators and methods to exact built-in str/bytes values only, never to an
   instance of a subclass or any other object. *)
Theorem C01_provider_touches_builtins_only : forall e a b c, In c (touches e a b) -> user_defined c = false.
Proof. exact provider_touches_builtins_only. Qed.
Print Assumptions C01_provider_touches_builtins_only.

Theorem C01_provider_no_user_code : forall e a b, existsb user_defined (touches e a b) = false.
Proof. exact provider_no_user_code. Qed.
Print Assumptions C01_provider_no_user_code.
