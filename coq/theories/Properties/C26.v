(* C26 — Generator selection offers only type-compatible generators.
   Only statements, closed by [exact]; model in Models/C26.v (on Models/C25.v), proofs in Proofs/C26.v.
   PARTIAL: the compatibility of the distance-based provider and the agreement of the two providers
   hold only for requests without list/set/dict instances (and only as inclusion); the full statements
   are refuted below by witnesses that replay on the implementation (known findings). *)
From Coq Require Import List NArith.
From Verif Require Import Models.C25 Proofs.C25 Models.C26 Proofs.C26.
Import ListNotations. Import C25 C26.

(* --- RandomGeneratorProvider: offered <=> the generated type may be a subtype of the request --- *)
Theorem C26_random_offered_compatible : forall g tb typ x,
  In x (offered_r g tb typ) ->
  exists e, In e tb /\ In x (snd e) /\ is_maybe_subtype g (fst e) typ = true.
Proof. exact offered_r_compatible. Qed.
Print Assumptions C26_random_offered_compatible.

Theorem C26_random_offered_complete : forall g tb typ e x,
  In e tb -> In x (snd e) -> is_maybe_subtype g (fst e) typ = true -> In x (offered_r g tb typ).
Proof. exact offered_r_complete. Qed.
Print Assumptions C26_random_offered_complete.

(* --- GeneratorProvider: offered => compatible ------------------------------------------------ *)
(* in full generality for the covariant reading of list/set/dict arguments *)
Theorem C26_heuristic_offered_compatible_cov : forall g anyd prims tb typ x,
  wf_table g tb = true -> wf g typ = true ->
  In x (offered_h g anyd prims tb typ) ->
  exists e, In e tb /\ In x (snd e) /\ is_maybe_subtype_cov g (fst e) typ = true.
Proof. exact offered_h_compatible_cov. Qed.
Print Assumptions C26_heuristic_offered_compatible_cov.

(* for the real is_maybe_subtype when the request holds no list/set/dict instance *)
Theorem C26_heuristic_offered_compatible_partial : forall g anyd prims tb typ x,
  wf_table g tb = true -> wf g typ = true -> hg_free g typ = true ->
  In x (offered_h g anyd prims tb typ) ->
  exists e, In e tb /\ In x (snd e) /\ is_maybe_subtype g (fst e) typ = true.
Proof. exact offered_h_compatible_partial. Qed.
Print Assumptions C26_heuristic_offered_compatible_partial.

(* Full statement (no hg_free) is FALSE of the code: a list[object] request is served with the
   generator returning list[int].  Known finding offered-incompatible:heuristic:generic-invariance. *)
Theorem C26_heuristic_offered_incompatible_refuted :
  exists x, In x (offered_h g_ex 30%N [2%N] tb_ex (t_list t_obj)) /\
    forall e, In e tb_ex -> In x (snd e) -> is_maybe_subtype g_ex (fst e) (t_list t_obj) = false.
Proof. exact offered_h_incompatible_refuted. Qed.
Print Assumptions C26_heuristic_offered_incompatible_refuted.

(* --- both providers offer the same set --------------------------------------------------------
   proved: equal for Any; heuristic ⊆ random for requests without list/set/dict *)
Theorem C26_providers_agree_on_any : forall g anyd prims tb,
  offered_h g anyd prims tb TAny = offered_r g tb TAny.
Proof. exact providers_agree_on_any. Qed.
Print Assumptions C26_providers_agree_on_any.

Theorem C26_providers_agree_partial : forall g anyd prims tb typ,
  wf_table g tb = true -> wf g typ = true -> hg_free g typ = true ->
  incl (offered_h g anyd prims tb typ) (offered_r g tb typ).
Proof. exact providers_agree_partial. Qed.
Print Assumptions C26_providers_agree_partial.

(* Full statement "same set" is FALSE of the code: primitive requests (int) and tuple requests vs
   Any-returning generators are served by the random provider only, list[object] vs list[int] by the
   heuristic provider only.  Known findings providers-differ:.. *)
Theorem C26_providers_agree_refuted :
  wf_table g_ex tb_ex = true /\
  offered_h g_ex 30%N [2%N] tb_ex t_int = [] /\ offered_r g_ex tb_ex t_int = [2%N; 3%N] /\
  offered_h g_ex 30%N [2%N] tb_ex (t_list t_obj) = [0%N; 1%N; 3%N] /\
  offered_r g_ex tb_ex (t_list t_obj) = [0%N; 3%N] /\
  offered_h g_ex 30%N [2%N] tb_ex (TTuple [t_int]) = [] /\
  offered_r g_ex tb_ex (TTuple [t_int]) = [3%N].
Proof. exact providers_agree_refuted. Qed.
Print Assumptions C26_providers_agree_refuted.

(* --- memoised type queries (repaired add_subclass_edge) --------------------------------------
   For every history of queries, edge additions and cache evictions that starts with an empty cache:
   every memoised answer equals its recomputation on the final graph, a query asked afterwards returns
   that recomputation, and every answer given inside the history is the recomputation on the graph of
   its moment. *)
Theorem C26_cache_fresh : forall anyd g ops,
  let s' := fst (run true anyd {| gr := g; ca := [] |} ops) in
  fresh_cache (gr s') anyd (ca s').
Proof. exact cache_fresh. Qed.
Print Assumptions C26_cache_fresh.

Theorem C26_cached_query_current : forall anyd g ops q,
  let s' := fst (run true anyd {| gr := g; ca := [] |} ops) in
  snd (step true anyd s' (Query q)) = Some (compute (gr s') anyd q).
Proof. exact cached_query_current. Qed.
Print Assumptions C26_cached_query_current.

Theorem C26_history_answers_current : forall anyd ops s,
  fresh_cache (gr s) anyd (ca s) ->
  forall pre q post, ops = pre ++ Query q :: post ->
  nth_error (snd (run true anyd s ops)) (length pre) =
  Some (Some (compute (gr (fst (run true anyd s pre))) anyd q)).
Proof. exact run_answers. Qed.
Print Assumptions C26_history_answers_current.

(* The invalidation is necessary: the machine without it (the code before the repair) answers
   is_subtype(int, float) = False after the numeric-tower edge was added. *)
Theorem C26_cache_stale_without_invalidation :
  let ops := [Query (KSub (TInst 0%N []) (TInst 1%N [])); AddEdge 1%N 0%N] in
  let s' := fst (run false 30%N {| gr := g_nt; ca := [] |} ops) in
  snd (step false 30%N s' (Query (KSub (TInst 0%N []) (TInst 1%N [])))) = Some (ABool false) /\
  compute (gr s') 30%N (KSub (TInst 0%N []) (TInst 1%N [])) = ABool true.
Proof. exact cache_stale_without_invalidation. Qed.
Print Assumptions C26_cache_stale_without_invalidation.

(* --- the providers' own cache (_get_generators_for is lru_cached) ------------------------------
   For every history of requests and generator-table changes in which each change is followed by
   clear_generator_cache (as TestCluster.update_return_type does) a request is answered as by a
   provider freshly built on the final table; after clear_generator_cache this holds whatever
   happened before. *)
Theorem C26_provider_cache_fresh : forall k anyd prims g tb ops typ,
  forallb disciplined ops = true ->
  let s' := fst (prun k anyd prims {| pgr := g; ptb := tb; pca := [] |} ops) in
  snd (pstep k anyd prims s' (PQuery typ)) = Some (offered k (pgr s') anyd prims (ptb s') typ).
Proof. exact provider_cache_fresh. Qed.
Print Assumptions C26_provider_cache_fresh.

Theorem C26_provider_cache_fresh_after_clear : forall k anyd prims s ops typ,
  let s' := fst (pstep k anyd prims (fst (prun k anyd prims s ops)) PClear) in
  snd (pstep k anyd prims s' (PQuery typ)) = Some (offered k (pgr s') anyd prims (ptb s') typ).
Proof. exact provider_cache_fresh_after_clear. Qed.
Print Assumptions C26_provider_cache_fresh_after_clear.

(* The unrestricted statement is FALSE of the code: a graph update does not reach the provider
   cache.  Known finding provider-cache-stale:graph-update. *)
Theorem C26_provider_cache_stale_after_graph_update :
  let s' := fst (prun PRand 30%N [] {| pgr := g_ex; ptb := tb_ph; pca := [] |} [PQuery t_K; PEdge 6%N 1%N]) in
  snd (pstep PRand 30%N [] s' (PQuery t_K)) = Some [0%N] /\
  offered PRand (pgr s') 30%N [] (ptb s') t_K = [0%N; 1%N].
Proof. exact provider_cache_stale_after_graph_update. Qed.
Print Assumptions C26_provider_cache_stale_after_graph_update.

(* --- update_return_type moves the registration of a generator ---------------------------------
   (drop under the old return type, add under the new one): afterwards the generator is registered
   under its new return type, under nothing else if it was registered under the old one only, and
   the random provider offers it only for requests its new return type may be a subtype of. *)
Theorem C26_update_registers_new : forall tb g old new,
  exists e, In e (tb_update tb g old new) /\ fst e = new /\ In g (snd e).
Proof. exact update_registers_new. Qed.
Print Assumptions C26_update_registers_new.

Theorem C26_update_only_new : forall tb g old new,
  (forall e, In e tb -> In g (snd e) -> fst e = old) ->
  forall e, In e (tb_update tb g old new) -> In g (snd e) -> fst e = new.
Proof. exact update_only_new. Qed.
Print Assumptions C26_update_only_new.

Theorem C26_updated_generator_compatible : forall gph tb g old new typ,
  (forall e, In e tb -> In g (snd e) -> fst e = old) ->
  In g (offered_r gph (tb_update tb g old new) typ) -> is_maybe_subtype gph new typ = true.
Proof. exact updated_generator_compatible. Qed.
Print Assumptions C26_updated_generator_compatible.

(* --- queries are observations: whatever sequence of (memoised) queries and evictions is interleaved,
   a later query is answered as on the unchanged graph *)
Theorem C26_queries_leave_answers_unchanged : forall anyd s ops q,
  fresh_cache (gr s) anyd (ca s) -> forallb is_observation ops = true ->
  snd (step true anyd (fst (run true anyd s ops)) (Query q)) = Some (compute (gr s) anyd q).
Proof. exact queries_leave_answers_unchanged. Qed.
Print Assumptions C26_queries_leave_answers_unchanged.
