(* C02 — Reported line coverage equals the lines the interpreter actually executed (partial).
   Only statements, closed by [exact].  Model: Models/C02.v = LineCoverageInstrumentation.visit_node /
   should_instrument_line of the 3.12 classes over raw basic blocks.  The model is tied to the code by
   translation validation: every really instrumented corpus block must equal [instrument_block]
   applied to the original block (checked inside Coq on every run).
   Outside the theorems: that CPython executes the instructions of a block in order, that the line
   table survives re-assembly, what a sys.monitoring LINE event means (direct oracle), and that the
   probe call itself neither raises nor is skipped (C04/C05). *)
From Coq Require Import List ZArith.
From Verif Require Import Models.C02 Proofs.C02.
Import ListNotations. Import C02.

(* For every block, every exclusion set and every prefix of the instrumented block that the
   interpreter can have executed (it does not stop between a probe and its instruction), the set of
   lines reported equals the set of coverable lines of the executed original instructions. *)
Theorem C02_lines_exact : forall ex blk k,
  let pre := firstn k (instrument_block ex blk) in
  ends_on_probe pre = false ->
  forall z, In z (fired pre) <-> In z (lines_of ex (executed_instrs pre)).
Proof. exact lines_exact. Qed.
Print Assumptions C02_lines_exact.

(* ... and for every execution = any sequence of such block prefixes. *)
Theorem C02_lines_exact_run : forall ex bs (run : list (list ielem)),
  Forall (is_prefix_of_block ex bs) run ->
  forall z, In z (flat_map fired run) <-> In z (flat_map (fun p => lines_of ex (executed_instrs p)) run).
Proof. exact lines_exact_run. Qed.
Print Assumptions C02_lines_exact_run.

(* Every reported line is a line of an instruction of that block of the module under test, is not
   excluded, and not the line of a bare RESUME/END_FOR. *)
Theorem C02_reported_lines_belong : forall ex blk last z,
  In z (fired (instrument ex last blk)) ->
  exists i, In i (oinstrs blk) /\ line i = Some z /\ coverable ex i = true.
Proof. exact fired_lines_belong_to_block. Qed.
Print Assumptions C02_reported_lines_belong.

Theorem C02_reported_lines_registered : forall (bs : list (list ielem)) b k z,
  In b bs -> In z (fired (firstn k b)) -> In z (registry bs).
Proof. exact fired_registered. Qed.
Print Assumptions C02_reported_lines_registered.

(* What must not change: the original raw block (instructions and pseudo-instructions, in order)
   is still there, and each probe sits immediately in front of an instruction carrying its line. *)
Theorem C02_only_probes_added : forall ex blk last, erase (instrument ex last blk) = blk.
Proof. exact erase_instrument. Qed.
Print Assumptions C02_only_probes_added.

Theorem C02_probe_before_its_line : forall ex blk last l1 l2 pl,
  instrument ex last blk = l1 ++ Probe pl :: l2 -> exists i l3, l2 = II i :: l3 /\ line i = pl.
Proof. exact probe_before_its_line. Qed.
Print Assumptions C02_probe_before_its_line.
