(* C30 — Test executions are isolated and restore process state.
   Only statements, closed by [exact]; see Models/C30.v (process-global resources, actions of the
   code under test, the executor's bracket after the repairs fixes/C30-*.diff) and Proofs/C30.v.

   Partial: module globals of arbitrary modules under test, threads that outlive a timeout,
   descriptors other than 0..2, sys.__stdout__ and C-level state are outside the model (notes/C30.md). *)
From Coq Require Import List ZArith.
From Verif Require Import Models.C30 Proofs.C30.
Import ListNotations. Import C30. Open Scope Z_scope.

(* Full statement: forall e t s, pyn_view (fst (exec_test e t s)) = pyn_view s  — after executing
   ANY test case (calls that print, close or replace the standard streams, close descriptors 0..2,
   disable logging, reseed or consume random numbers, raise, mutate globals) from ANY process state,
   sys.stdout/stderr/stdin, descriptors 0..2, the logging.disable level and Pynguin's own random
   generator are as before.  The faithful model REFUTES it for one class of states: restore() installs
   sys.__stdout__ / sys.__stderr__, not the objects that were installed before (the repository's
   tests demand this; known finding).  What is missing for the full statement is exactly the
   hypothesis [std_streams s] below. *)
Theorem C30_bracket_restores_refuted : exists e t s, pyn_view (fst (exec_test e t s)) <> pyn_view s.
Proof. exact bracket_restores_refuted. Qed.
Print Assumptions C30_bracket_restores_refuted.

(* When Pynguin runs with the interpreter's own stdout/stderr (its command line does), the view is
   restored after every test case from every such state ... *)
Theorem C30_bracket_restores_partial : forall e t s,
  std_streams s -> pyn_view (fst (exec_test e t s)) = pyn_view s.
Proof. exact bracket_restores. Qed.
Print Assumptions C30_bracket_restores_partial.

(* ... and from EVERY state sys.stdin, descriptors 0..2, the logging level and Pynguin's generator
   are as before, and stdout/stderr are the interpreter's originals afterwards. *)
Theorem C30_bracket_restores_except_replaced_streams : forall e t s,
  rest_view (fst (exec_test e t s)) = rest_view s /\ std_streams (fst (exec_test e t s)).
Proof. exact bracket_restores_gen. Qed.
Print Assumptions C30_bracket_restores_except_replaced_streams.

(* The same when the execution is cut short anywhere (time-out: the main thread calls restore()
   while only a prefix [t] of the statements has run), and restore() may run twice. *)
Theorem C30_restore_after_any_prefix : forall e t s,
  std_streams s ->
  pyn_view (restore (save (make_deterministic e s))
                    (fst (run_stmts e t (enter (make_deterministic e s))))) = pyn_view s.
Proof. exact bracket_restores_prefix. Qed.
Print Assumptions C30_restore_after_any_prefix.

(* The time-out path as TestCaseExecutor.execute runs it: [t1] is what the code under test did before
   the first join expired, [t2] what the condemned thread still does while the calling thread waits in
   the grace join; OutputSuppressionContext.restore and the logging hand-back come after that join.
   When execute() returns, Pynguin's view is as before, for all t1, t2.  (What a thread that outlives the
   grace join does later is outside this property: C32.) *)
Theorem C30_timeout_restores : forall e t1 t2 s,
  std_streams s -> pyn_view (exec_timeout e t1 t2 s) = pyn_view s.
Proof. exact timeout_restores. Qed.
Print Assumptions C30_timeout_restores.

Theorem C30_timeout_restores_except_replaced_streams : forall e t1 t2 s,
  rest_view (exec_timeout e t1 t2 s) = rest_view s /\ std_streams (exec_timeout e t1 t2 s).
Proof. exact timeout_restores_gen. Qed.
Print Assumptions C30_timeout_restores_except_replaced_streams.

(* The placement matters: handing the logging level back before the grace join is refuted. *)
Theorem C30_early_logging_restore_refuted :
  exists e t1 t2 s, std_streams s /\ pyn_view (exec_timeout_early_logging e t1 t2 s) <> pyn_view s.
Proof. exact early_logging_restore_refuted. Qed.
Print Assumptions C30_early_logging_restore_refuted.

(* "Logging state as before" means the behaviour of existing loggers, not only the number in
   logging.root.manager.disable: Logger.isEnabledFor caches its answers per logger, logging.disable(...)
   clears those caches, assigning the attribute does not.  [cache_ok]: the cached answer (if any) agrees
   with the disable level, as it always does when logging is used through its public API.  After any test
   case (finished or timed out) the logger of the module under test answers isEnabledFor(ERROR) as before;
   handing back only the number is refuted (witness: logging.disable(50); LOG.error(..)). *)
Theorem C30_logging_behaviour_restored : forall e t s,
  cache_ok s -> log_loud (fst (exec_test e t s)) = log_loud s.
Proof. exact logging_behaviour_restored. Qed.
Print Assumptions C30_logging_behaviour_restored.

Theorem C30_logging_behaviour_restored_timeout : forall e t1 t2 s,
  cache_ok s -> log_loud (exec_timeout e t1 t2 s) = log_loud s.
Proof. exact logging_behaviour_restored_timeout. Qed.
Print Assumptions C30_logging_behaviour_restored_timeout.

Theorem C30_level_only_restore_refuted :
  exists e t s, cache_ok s /\ logd (exec_test_level_only e t s) = logd s /\
                log_loud (exec_test_level_only e t s) <> log_loud s.
Proof. exact level_only_restore_refuted. Qed.
Print Assumptions C30_level_only_restore_refuted.

Theorem C30_restore_idempotent : forall sv s, restore sv (restore sv s) = restore sv s.
Proof. exact restore_idempotent. Qed.
Print Assumptions C30_restore_idempotent.

(* Over a whole run: as long as Pynguin does not use its generator itself, its view never changes. *)
Theorem C30_view_invariant_over_executions : forall e l s,
  std_streams s -> Forall (fun i => i <> PynDraw) l -> pyn_view (run_items e s l) = pyn_view s.
Proof. exact run_items_execs_view. Qed.
Print Assumptions C30_view_invariant_over_executions.

(* For tests that do not read hidden module state, the result (which statements ran, which
   exception ended the test) does not depend on anything that ran before. *)
Theorem C30_order_independent : forall e items t s,
  reads_hidden t = false -> cache_ok s -> result e t (run_items e s items) = result e t s.
Proof. exact order_independent. Qed.
Print Assumptions C30_order_independent.

Theorem C30_result_depends_on_ambient_only : forall e t s1 s2,
  reads_hidden t = false -> cache_ok s1 -> cache_ok s2 -> ambient s1 = ambient s2 ->
  result e t s1 = result e t s2.
Proof. exact result_depends_on_ambient_only. Qed.
Print Assumptions C30_result_depends_on_ambient_only.

(* Every execution starts with usable (open) null streams, whatever earlier tests closed, and
   with both the module-level and the tracked generators freshly seeded. *)
Theorem C30_print_never_poisoned : forall e s,
  result e [Print; PrintErr; ReadIn] s = [Done; Done; Done].
Proof. exact print_never_poisoned. Qed.
Print Assumptions C30_print_never_poisoned.

Theorem C30_draws_reseeded : forall e s,
  result e [Draw] s = [if low e (cfg_seed e) 0 then Exc ERuntime else Done] /\
  result e [DrawInst] s = [if low e (cfg_seed e) 0 then Exc ERuntime else Done].
Proof. exact draws_reseeded. Qed.
Print Assumptions C30_draws_reseeded.
