(* C29 — Filesystem isolation never modifies or deletes pre-existing paths.
   Only statements, closed by [exact]; see Models/C29.v (model of FilesystemIsolation after the
   repairs fixes/C29-*.diff over a POSIX-like tree) and Proofs/C29.v (proofs).

   [f0] is the tree that exists when the isolation is entered ([wf0]: closed under parents, as every
   real directory tree is), [ops] any sequence of operations of the code under test (open r/w/a/x/r+,
   touch, mkdir/makedirs with exist_ok, rename/replace, copyfile/copy/move, remove, rmdir, rmtree,
   each succeeding, failing or being refused), [exit_fs] the tree after __exit__'s clean-up. *)
From Coq Require Import List ZArith.
From Verif Require Import Models.C29 Proofs.C29.
Import ListNotations. Import C29. Open Scope Z_scope.

(* The property in one equation: after leaving the isolation the tree is exactly the tree that
   existed before: every pre-existing path is there with its content, every other path is gone. *)
Theorem C29_isolation_restores : forall f0 dom0 ops,
  wf0 f0 -> forall q, exit_fs (run (enter f0 dom0) ops) q = f0 q.
Proof. exact isolation_restores. Qed.
Print Assumptions C29_isolation_restores.

Theorem C29_preexisting_unchanged : forall f0 dom0 ops,
  wf0 f0 -> forall q n, f0 q = Some n -> exit_fs (run (enter f0 dom0) ops) q = Some n.
Proof. exact preexisting_unchanged. Qed.
Print Assumptions C29_preexisting_unchanged.

Theorem C29_created_gone : forall f0 dom0 ops,
  wf0 f0 -> forall q, f0 q = None -> exit_fs (run (enter f0 dom0) ops) q = None.
Proof. exact created_gone. Qed.
Print Assumptions C29_created_gone.

(* Stronger than the property asks: pre-existing paths are untouched at every moment of the
   execution, and no pre-existing path (nor a parent of one) is ever recorded for deletion. *)
Theorem C29_preexisting_never_modified : forall f0 dom0 ops,
  wf0 f0 -> forall q, f0 q <> None -> fs (run (enter f0 dom0) ops) q = f0 q.
Proof. exact preexisting_never_modified. Qed.
Print Assumptions C29_preexisting_never_modified.

Theorem C29_never_records_preexisting : forall f0 dom0 ops,
  wf0 f0 -> forall q r, f0 q <> None ->
  In r (created (run (enter f0 dom0) ops)) -> is_prefix r q = false.
Proof. exact never_records_preexisting. Qed.
Print Assumptions C29_never_records_preexisting.

(* An operation refused by the isolation layer has no effect at all. *)
Theorem C29_refused_unchanged : forall st o st', step st o = (st', RRefused) -> st' = st.
Proof. exact refused_unchanged. Qed.
Print Assumptions C29_refused_unchanged.

(* os.open: the wrapper's decision is a function of the flag set ([guarded]); every flag set it lets
   through unguarded (O_RDONLY, possibly with O_EXCL) changes nothing, so on a pre-existing
   (non-isolated) path NO combination of access mode, O_CREAT, O_EXCL, O_TRUNC, O_APPEND, O_TMPFILE has any
   effect: it is refused or it is a harmless read.  (O_RDONLY|O_TRUNC truncates under Linux; it is guarded.) *)
Theorem C29_os_open_unguarded_harmless : forall st p f d,
  guarded f = false -> fst (do_os_open st p f d) = st.
Proof. exact os_open_unguarded_harmless. Qed.
Print Assumptions C29_os_open_unguarded_harmless.

Theorem C29_os_open_foreign_no_effect : forall st p f d,
  foreign st p = true -> fst (do_os_open st p f d) = st.
Proof. exact os_open_foreign_no_effect. Qed.
Print Assumptions C29_os_open_foreign_no_effect.

(* The premise wf0 is decidable for trees given as lists and is checked by the correspondence on
   every sandbox tree ([wf_initb] is part of [check_case]). *)
Theorem C29_isolation_restores_checked_tree : forall init ops,
  wf_initb init = true ->
  forall q, exit_fs (run (enter (fs_of_list init) (map fst init)) ops) q = fs_of_list init q.
Proof. exact isolation_restores_list. Qed.
Print Assumptions C29_isolation_restores_checked_tree.
