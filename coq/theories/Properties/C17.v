(* C17 — Search stops as soon as a configured budget is exhausted.
   Only statements, closed by [exact]; model in Models/C17.v, proofs in Proofs/C17.v.

   [accepts hf s tr]: the event list tr is a run of the search loop (hf: the algorithm has an
   initial population and calls before_first_search_iteration — all algorithms but MIO) with the
   configured stopping conditions s (iteration / test-execution / statement-execution budgets, each
   optional, arbitrary initial counters).  The contents of an iteration (any number of test
   executions with any statement counts) and the algorithm's own goal condition are arbitrary, so
   the theorems hold for every algorithm instance and every event sequence.
   [at_head hf pre]: pre ends at an iteration boundary (after before_first_search_iteration, after
   an after_search_iteration, or — MIO — right after before_search_start). *)
From Coq Require Import List ZArith.
From Verif Require Import Models.C17 Proofs.C17.
Import ListNotations. Import C17. Open Scope Z_scope.

(* The stopping conditions count exactly: after before_search_start, every configured counter
   equals the number of iterations / test executions / executed statements observed since. *)
Theorem C17_counters_exact : forall hf s tr st,
  run hf (init s) (SearchStart :: tr) = Some st ->
  (forall c, c_iter s = Some c -> exists c', c_iter (cs st) = Some c' /\ cnt c' = n_iter tr /\ lim c' = lim c) /\
  (forall c, c_test s = Some c -> exists c', c_test (cs st) = Some c' /\ cnt c' = n_exec tr /\ lim c' = lim c) /\
  (forall c, c_stmt s = Some c -> exists c', c_stmt (cs st) = Some c' /\ cnt c' = n_stmt tr /\ lim c' = lim c).
Proof. exact counters_exact. Qed.
Print Assumptions C17_counters_exact.

(* The number of completed iterations never exceeds the iteration budget. *)
Theorem C17_iterations_le_budget : forall hf s tr c,
  accepts hf s tr = true -> c_iter s = Some c -> 0 < lim c -> n_iter tr <= lim c.
Proof. exact iterations_le_budget. Qed.
Print Assumptions C17_iterations_le_budget.

(* ... and neither does the number of passes through the loop body (IterStart = evolve() /
   generate_sequence() entered): a pass that is not reported by after_search_iteration is no run of
   the loop, so rejected offspring etc. cannot buy iterations beyond the budget. *)
Theorem C17_loop_passes_le_budget : forall hf s tr c,
  accepts hf s tr = true -> c_iter s = Some c -> 0 < lim c -> n_start tr <= lim c.
Proof. exact starts_le_budget. Qed.
Print Assumptions C17_loop_passes_le_budget.

(* No iteration starts (no test execution, no after_search_iteration follows an iteration boundary)
   unless every configured budget — iterations, test executions, executed statements — is still
   strictly below its limit at that boundary. *)
Theorem C17_no_start_after_budget : forall hf s pre e post,
  accepts hf s (SearchStart :: pre ++ e :: post) = true ->
  at_head hf pre -> starts_iter e = true ->
  below (c_iter s) (n_iter pre) /\ below (c_test s) (n_exec pre) /\ below (c_stmt s) (n_stmt pre).
Proof. exact no_start_after_budget. Qed.
Print Assumptions C17_no_start_after_budget.

(* Once any condition is fulfilled at an iteration boundary the search performs no further
   iteration: the run is over, or after_search_finish follows and no iteration ever completes. *)
Theorem C17_stops_at_boundary : forall hf s pre rest,
  accepts hf s (SearchStart :: pre ++ rest) = true -> at_head hf pre ->
  (reached (c_iter s) (n_iter pre) \/ reached (c_test s) (n_exec pre) \/ reached (c_stmt s) (n_stmt pre)) ->
  rest = [] \/ exists post, rest = SearchEnd :: post /\ n_iter post = 0.
Proof. exact stops_at_boundary. Qed.
Print Assumptions C17_stops_at_boundary.

(* resources_left is the conjunction of "counter strictly below limit" over the configured
   conditions. *)
Theorem C17_resources_left : forall s,
  resources_left s = true <->
  (forall c, c_iter s = Some c -> cnt c < lim c) /\ (forall c, c_test s = Some c -> cnt c < lim c) /\
  (forall c, c_stmt s = Some c -> cnt c < lim c).
Proof. exact resources_left_spec. Qed.
Print Assumptions C17_resources_left.

(* A real run whose replay (loop model + counter comparison after every event) succeeds is a run
   of the loop model. *)
Theorem C17_replay_sound : forall hf tr st i,
  replay hf st tr i = None -> exists st', run hf st (map fst tr) = Some st'.
Proof. exact replay_accepts. Qed.
Print Assumptions C17_replay_sound.
