(* C21 — Kept assertions hold on the original module and preserve mutant kills.
   Only statements, closed by [exact]; see Models/C21.v (model) and Proofs/C21.v (proofs).
   Part of the property outside every theorem: that an assertion which held in the filtering
   executions holds again in a later execution (determinism of the module under test) — monitored by
   re-execution on real runs (harness/props/C21.py), not proved. *)
From Coq Require Import List ZArith QArith.
From Verif Require Import Models.C21 Proofs.C21.
Import ListNotations. Import C21. Open Scope Z_scope.

(* --- removal of non-holding assertions: exactly the assertions whose check failed or raised in the
   filtering execution are removed; all others stay, in their order. *)
Theorem C21_non_holding_removed_exactly : forall l del, NoDup l -> forall a,
  In a (remove_non_holding l del) <-> In a l /\ ~ exists p, In p del /\ nth_error l p = Some a.
Proof. exact remove_non_holding_spec. Qed.
Print Assumptions C21_non_holding_removed_exactly.

Theorem C21_non_holding_keeps_order : forall l del, NoDup l -> exists f, remove_non_holding l del = filter f l.
Proof. exact remove_non_holding_keeps_order. Qed.
Print Assumptions C21_non_holding_keeps_order.

(* --- _select_minimal_assertions: termination. Every iteration of `while uncovered:` that stays in the
   loop strictly decreases |uncovered|; hence the iteration reaches the loop exit within |universe|
   steps (the fuel of [giter] never runs out, and more fuel does not change the result). *)
Theorem C21_greedy_iteration_decreases : forall st st', gstep st = Some st' -> (gmeasure st' < gmeasure st)%nat.
Proof. exact gstep_decreases. Qed.
Print Assumptions C21_greedy_iteration_decreases.

Theorem C21_select_terminates : forall km, exists ks, select km = Some ks.
Proof. exact select_total. Qed.
Print Assumptions C21_select_terminates.

Theorem C21_select_fuel_irrelevant : forall km fuel st, (length (universe km) <= fuel)%nat ->
  giter (length (universe km)) (init_state km) = Some st -> giter fuel (init_state km) = Some st.
Proof. exact select_fuel_irrelevant. Qed.
Print Assumptions C21_select_fuel_irrelevant.

(* --- the kept entries are entries of the kill map, none with an empty kill set *)
Theorem C21_select_subset : forall km, NoDup (map fst km) -> forall ks, select_full km = Some ks ->
  forall e, In e ks -> In e km /\ snd e <> [].
Proof. intros km Hd. exact (select_full_subset km (nodup_keys_functional km Hd)). Qed.
Print Assumptions C21_select_subset.

(* --- the kept assertions together kill exactly the mutants the full set kills *)
Theorem C21_select_covers : forall km, NoDup (map fst km) -> forall ks, select_full km = Some ks ->
  forall m, (exists e, In e km /\ In m (snd e)) <-> (exists e, In e ks /\ In m (snd e)).
Proof. intros km Hd. exact (select_full_covers km (nodup_keys_functional km Hd)). Qed.
Print Assumptions C21_select_covers.

(* --- no kept assertion is useless: each one kills a mutant no other kept assertion kills *)
Theorem C21_select_irredundant : forall km, NoDup (map fst km) -> forall ks, select_full km = Some ks ->
  forall e, In e ks ->
  exists m, In m (snd e) /\ forall e', In e' ks -> fst e' <> fst e -> ~ In m (snd e').
Proof. intros km Hd. exact (select_full_irredundant km (nodup_keys_functional km Hd)). Qed.
Print Assumptions C21_select_irredundant.

(* --- the variant without minimisation (keep what some mutant violates) keeps the union too *)
Theorem C21_relevant_covers : forall km m,
  (exists e, In e km /\ In m (snd e)) <-> (exists e, In e km /\ In (fst e) (relevant km) /\ In m (snd e)).
Proof. exact relevant_covers. Qed.
Print Assumptions C21_relevant_covers.

(* --- on a test: the kill map built from the execution table, the selection and the exception-only
   statements (left untouched) together keep, for every mutant that did not time out, the verdict
   "this test violates an assertion on that mutant" *)
Theorem C21_minimize_preserves_kills : forall test row infos ks,
  select_full (build_kill_map test row infos) = Some ks ->
  forall n r i, nth_error row n = Some (Some r) -> nth_error infos n = Some i -> fst i = [] ->
    incl (r_viol r) (all_keys test) ->
    (r_viol r <> [] <-> filter (fun k => memK k (map fst ks ++ exc_keys test)) (r_viol r) <> []).
Proof. exact minimize_preserves_kills. Qed.
Print Assumptions C21_minimize_preserves_kills.

(* what the minimisation leaves on a statement: exactly the assertions at kept keys *)
Theorem C21_minimize_keeps_exactly : forall (s : list Z) sidx keep, NoDup s -> forall a,
  In a (remove_where s (fun pos => negb (memK (sidx, Z.of_nat pos) keep)))
  <-> exists p, nth_error s p = Some a /\ In (sidx, Z.of_nat p) keep.
Proof. exact minimize_stmt_keeps_exactly. Qed.
Print Assumptions C21_minimize_keeps_exactly.

(* --- summary and score: killed / timed out / survived partition the checked mutants *)
Theorem C21_summary_partition : forall infos,
  count is_killed infos + count is_timeout infos + count is_survived infos = Z.of_nat (length infos).
Proof. exact counts_partition. Qed.
Print Assumptions C21_summary_partition.

Theorem C21_score_in_unit : forall infos, (0 <= score (metrics infos) <= 1)%Q.
Proof. exact score_in_unit. Qed.
Print Assumptions C21_score_in_unit.

(* the score is killed / (killed + survived): timed-out mutants are in neither count *)
Theorem C21_score_is_killed_over_decided : forall infos,
  score_nd (metrics infos) =
  if count is_killed infos + count is_survived infos =? 0 then (1, 1)
  else (count is_killed infos, count is_killed infos + count is_survived infos).
Proof. exact score_is_killed_over_decided. Qed.
Print Assumptions C21_score_is_killed_over_decided.

Theorem C21_score_ignores_timeouts : forall a b i,
  is_timeout i = true -> score_nd (metrics (a ++ i :: b)) = score_nd (metrics (a ++ b)).
Proof. exact score_ignores_timeouts. Qed.
Print Assumptions C21_score_ignores_timeouts.

(* unchecked mutants never reach the summary: invalid mutants get no column, and whatever the
   enumeration would have delivered after the budget cut is irrelevant *)
Theorem C21_unchecked_invalid_ignored : forall (s1 s2 : list (option (list cell))),
  collect (length (s1 ++ None :: s2)) (s1 ++ None :: s2) = collect (length (s1 ++ s2)) (s1 ++ s2).
Proof. exact (@collect_skips_invalid (list cell)). Qed.
Print Assumptions C21_unchecked_invalid_ignored.

Theorem C21_unchecked_beyond_budget_ignored : forall cut (s extra : list (option (list cell))),
  (cut <= length s)%nat -> collect cut (s ++ extra) = collect cut s.
Proof. exact (@collect_ignores_beyond_budget (list cell)). Qed.
Print Assumptions C21_unchecked_beyond_budget_ignored.
