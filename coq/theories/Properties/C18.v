(* C18 — Generated test files pass when run against the module under test.
   Only statements, closed by [exact]; see Models/C18.v (writer model, after the repair
   "import pytest whenever an emitted function mentions it") and Proofs/C18.v.
   Partial: the theorems are about the writer (names, decorators, wrapping, and what pytest
   reports given that each statement raises what its re-execution raised and kept assertions
   hold); CPython, pytest, libcst and the SUT's determinism are outside and covered by the
   runtime oracle of harness/props/C18.py. *)
From Coq Require Import List NArith Bool.
From Verif Require Import Models.C18 Proofs.C18.
Import ListNotations. Import C18.

(* Every free name of the emitted file is bound: header statements only use names bound above
   them; an xfail decorator finds pytest imported; every name used by a body item (statement,
   pytest.raises wrapper incl. the exception class, rendered assertion incl. pytest.approx,
   isinstance/len/type, enum class names) is a builtin, bound by the header, or bound by an
   earlier item of the same function. *)
Theorem C18_names_closed : forall c suite,
  wf_suite c suite = true ->
  let m := write c suite in
  (forall pre t post n, header m = pre ++ t :: post -> In n (uses_top t) ->
     is_builtin n = true \/ In n (flat_map binds_top pre)) /\
  (forall f, In f (funcs m) -> f_xfail f = true -> In Pytest (globals m)) /\
  (forall f pre it post n, In f (funcs m) -> f_body f = pre ++ it :: post -> In n (uses_item it) ->
     is_builtin n = true \/ In n (globals m) \/ In n (flat_map binds_item pre)).
Proof. exact names_closed. Qed.
Print Assumptions C18_names_closed.

(* `import pytest` is present exactly when a seed fixture is emitted or some function mentions
   pytest (xfail marker, pytest.raises wrapper, pytest.approx assertion, raw statement). *)
Theorem C18_pytest_imported_iff : forall c suite,
  In (TImport Pytest) (header (write c suite)) <->
  (seed c = true \/ exists tc, In tc suite /\ func_mentions_pytest (func_of c tc) = true).
Proof. exact pytest_imported_spec. Qed.
Print Assumptions C18_pytest_imported_iff.

(* The i-th test case becomes the i-th function, marked xfail(strict) iff one of its statements
   raised an exception that is neither declared by its callable nor forced into pytest.raises. *)
Theorem C18_xfail_iff_unexpected : forall c suite i tc,
  nth_error suite i = Some tc ->
  exists f, nth_error (funcs (write c suite)) i = Some f /\
    (f_xfail f = true <->
     exists s e, In s tc /\ s_exc s = Some e /\ no_xfail c = false /\ s_expected s = false).
Proof. exact xfail_iff_unexpected. Qed.
Print Assumptions C18_xfail_iff_unexpected.

(* pytest.raises(E) wraps a statement only if it raised E and E is handled; unwrapped statements
   did not raise or are unexpected; a handled raising statement is wrapped. *)
Theorem C18_raises_wraps_only_raising : forall c tc w s,
  In (IStmt w s) (f_body (func_of c tc)) ->
  In s tc /\
  (forall E, w = Some E ->
     exists e, s_exc s = Some e /\ e_name e = E /\ (no_xfail c = true \/ s_expected s = true)) /\
  (w = None -> s_exc s = None \/ (no_xfail c = false /\ s_expected s = false)).
Proof. exact raises_wraps_only_raising. Qed.
Print Assumptions C18_raises_wraps_only_raising.

Theorem C18_raising_is_wrapped : forall c tc s e,
  In s tc -> s_exc s = Some e -> (no_xfail c = true \/ s_expected s = true) ->
  In (IStmt (Some (e_name e)) s) (f_body (func_of c tc)).
Proof. exact raising_is_wrapped. Qed.
Print Assumptions C18_raising_is_wrapped.

(* BaseExceptions that are not Exceptions (sys.exit, KeyboardInterrupt, GeneratorExit, user
   subclasses of BaseException) are covered like every other kind: wrapped when handled, the function
   marked otherwise; a raising statement is never emitted bare in an unmarked function. *)
Theorem C18_base_exception_covered : forall c tc s e,
  In s tc -> s_exc s = Some e -> e_base e = true ->
  (no_xfail c = true \/ s_expected s = true -> In (IStmt (Some (e_name e)) s) (f_body (func_of c tc))) /\
  (no_xfail c = false /\ s_expected s = false -> f_xfail (func_of c tc) = true) /\
  (In (IStmt None s) (f_body (func_of c tc)) -> f_xfail (func_of c tc) = true).
Proof. exact base_exception_covered. Qed.
Print Assumptions C18_base_exception_covered.

(* What must not change: statements and rendered assertions are emitted once, in order. *)
Theorem C18_body_preserves_statements : forall c tc,
  stmts_of (f_body (func_of c tc)) = tc /\
  asserts_of (f_body (func_of c tc)) = flat_map (fun s => filter rendered (s_asserts s)) tc.
Proof. exact body_preserves. Qed.
Print Assumptions C18_body_preserves_statements.

(* For a deterministic SUT whose kept assertions hold, pytest reports "passed" for every function
   without the marker and "xfailed" (never XPASS(strict), never failed) for every marked one. *)
Theorem C18_report : forall c tc,
  all_hold tc = true ->
  pytest_report (func_of c tc) = if f_xfail (func_of c tc) then XFailed else Passed.
Proof. exact report_spec. Qed.
Print Assumptions C18_report.
