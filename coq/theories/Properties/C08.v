(* C08 — Coverage exclusions remove exactly the excluded code from the goals.
   Only statements, closed by [exact]; model in Models/C08.v (ModuleAstInfo / AstInfo after the fixes
   C08-*.diff, and the instrumentation's consultation of it), proofs in Proofs/C08.v.
   All theorems hold for every syntax tree, marker set, name list and code-object list. *)
From Coq Require Import List ZArith Bool.
From Verif Require Import Models.C08 Proofs.C08.
Import ListNotations. Import C08. Open Scope Z_scope.

(* should_cover_line decides exactly the declarative exclusion: the line is marked, or the scope is
   outside every only_cover selection, or some compound statement of the scope that spans the line
   has a marked arm (header / except / case / else / finally label) holding it. *)
Theorem C08_should_cover_line_spec : forall mi sc l,
  should_cover_line mi sc l = false <->
  In l (no_cover mi) \/ ~ in_only mi sc l \/ excluded_in (no_cover mi) l sc.
Proof. exact should_cover_line_false. Qed.
Print Assumptions C08_should_cover_line_spec.

Theorem C08_excluded_in_spec : forall no l n,
  excluded_in no l n <-> exists b, In b (flatten n) /\ within b l = true /\ arm_excludes no l b.
Proof. exact excluded_in_flatten. Qed.
Print Assumptions C08_excluded_in_spec.

Theorem C08_in_cover_spec : forall mi sc l,
  in_cover mi sc l = true <-> ~ In l (no_cover mi) /\ in_only mi sc l.
Proof. exact in_cover_spec. Qed.
Print Assumptions C08_in_cover_spec.

(* without markers and selections nothing is removed; more markers never add goals *)
Theorem C08_no_exclusions_all_covered : forall mi sc l,
  no_cover mi = [] -> only_cover mi = [] -> should_cover_line mi sc l = true.
Proof. exact no_exclusions_all_covered. Qed.
Print Assumptions C08_no_exclusions_all_covered.

Theorem C08_exclusion_monotone : forall no no' l n,
  (forall x, In x no -> In x no') -> excluded_in no l n -> excluded_in no' l n.
Proof. exact excluded_in_mono. Qed.
Print Assumptions C08_exclusion_monotone.

(* Line goals are exactly the instrumentable lines of instrumented code objects that are covered. *)
Theorem C08_line_goals_exact : forall mi cos l,
  In l (line_goals mi cos) <->
  exists j c, nth_error cos j = Some c /\ nth j (registered mi cos) false = true /\
              co_has_line c l /\ line_ok mi (get_scope mi (co_line c)) (Some l) = true.
Proof. exact line_goals_exact. Qed.
Print Assumptions C08_line_goals_exact.

(* No line goal lies inside excluded code ... *)
Theorem C08_line_goal_not_excluded : forall mi cos l,
  In l (line_goals mi cos) ->
  exists j c, nth_error cos j = Some c /\ nth j (registered mi cos) false = true /\ co_has_line c l /\
    forall sc, get_scope mi (co_line c) = Some sc ->
      ~ In l (no_cover mi) /\ in_only mi sc l /\ ~ excluded_in (no_cover mi) l sc
      /\ should_be_covered mi sc = true.
Proof. exact line_goal_not_excluded. Qed.
Print Assumptions C08_line_goal_not_excluded.

(* ... and every executable line outside excluded code (inside the only_cover selection) is one. *)
Theorem C08_line_goal_complete : forall mi cos j c sc l,
  nth_error cos j = Some c -> nth j (registered mi cos) false = true ->
  get_scope mi (co_line c) = Some sc -> co_has_line c l ->
  ~ In l (no_cover mi) -> in_only mi sc l -> ~ excluded_in (no_cover mi) l sc ->
  In l (line_goals mi cos).
Proof. exact line_goal_complete. Qed.
Print Assumptions C08_line_goal_complete.

(* Code-object goals: instrumented iff the scope should be covered and the parent is instrumented. *)
Theorem C08_code_object_sound : forall mi cos j c,
  nth_error cos j = Some c -> nth j (registered mi cos) false = true ->
  scope_ok mi c = true /\
  (forall p, co_parent c = Some p -> (p < j)%nat /\ nth p (registered mi cos) false = true).
Proof. exact registered_sound. Qed.
Print Assumptions C08_code_object_sound.

Theorem C08_code_object_complete : forall mi cos j c,
  nth_error cos j = Some c -> scope_ok mi c = true ->
  (forall p, co_parent c = Some p -> (p < j)%nat /\ nth p (registered mi cos) false = true) ->
  nth j (registered mi cos) false = true.
Proof. exact registered_complete. Qed.
Print Assumptions C08_code_object_complete.

(* every code object of a scope of the tree resolves to a scope with that first line (decorators
   included: fix A) *)
Theorem C08_scope_found : forall mi s,
  In s (flatten (root mi)) -> is_scope s = true ->
  exists s', get_scope mi (first_line s) = Some s' /\ is_scope s' = true /\ first_line s' = first_line s
             /\ In s' (flatten (root mi)).
Proof. exact get_scope_found. Qed.
Print Assumptions C08_scope_found.

Theorem C08_covered_scope_spec : forall mi sc,
  should_be_covered mi sc = true ->
  ~ In (nstart sc) (no_cover mi)
  /\ (forall d, In d (flatten (root mi)) -> is_def d = true -> nstart d <= nstart sc <= nend d ->
                ~ In (nstart d) (no_cover mi))
  /\ (is_module sc = false -> ~ excluded_in (no_cover mi) (nstart sc) (root mi)).
Proof. exact should_be_covered_spec. Qed.
Print Assumptions C08_covered_scope_spec.

(* everything nested in an excluded definition, or starting inside an excluded arm (fix D), is skipped *)
Theorem C08_nested_in_excluded_def : forall mi lo hi d s,
  wfb lo hi (root mi) = true ->
  In d (flatten (root mi)) -> is_def d = true -> nstart d <= nend d -> In (nstart d) (no_cover mi) ->
  In s (flatten d) -> nstart s <= nend s -> nstart d <= nstart s ->
  should_be_covered mi s = false.
Proof. exact nested_in_excluded_def. Qed.
Print Assumptions C08_nested_in_excluded_def.

Theorem C08_scope_in_excluded_arm : forall mi s,
  is_module s = false -> excluded_in (no_cover mi) (nstart s) (root mi) -> should_be_covered mi s = false.
Proof. exact scope_in_excluded_arm. Qed.
Print Assumptions C08_scope_in_excluded_arm.

(* inside an only_cover target (nested scopes too: fix C) every unmarked line is in cover *)
Theorem C08_inside_only_target : forall mi t s l,
  In t (flatten (root mi)) -> is_scope t = true -> In (nstart t) (only_cover mi) ->
  nstart t <= nstart s -> nend s <= nend t -> ~ In l (no_cover mi) -> in_cover mi s l = true.
Proof. exact inside_only_target. Qed.
Print Assumptions C08_inside_only_target.

(* a listed qualified name of a definition resolves wherever the definition stands (fix E) *)
Theorem C08_named_target_resolves : forall t q n,
  qualified [] t q n -> forall targets, In q targets ->
  exists l, In l (find_lines t targets) /\ In (q, l) (scope_names [] t).
Proof. exact named_target_resolves. Qed.
Print Assumptions C08_named_target_resolves.

(* Branch goals.  Full statement wanted: "no registered predicate lies on an excluded line":
     forall mi cos j c i b x sc, registered j -> nth_error (co_blocks c) i = Some b -> predicate
       registered for b -> b_last b = Some (Some x) -> get_scope .. = Some sc ->
       should_cover_line mi sc x = true.
   It is FALSE for the code as it is (see C08_pred_goal_refuted: a conditional expression on a marked
   line keeps its predicate; known finding).  What holds: the decision of the conditional statement
   at the jump line was "cover", and when the jump sits on the header of an if/for/while/case that
   header is not excluded. *)
Theorem C08_pred_goal_partial : forall mi b sc x h,
  (b_pred b && cond_ok mi (Some sc) b && existsb (line_ok mi (Some sc)) (b_lines b)) = true ->
  b_last b = Some (Some x) ->
  find (fun n => cond_node n x) (flatten sc) = Some h -> nstart h = x ->
  ~ In x (no_cover mi) /\ ~ excluded_in (no_cover mi) x sc.
Proof. exact pred_goal_header_not_excluded. Qed.
Print Assumptions C08_pred_goal_partial.

Theorem C08_cond_else_lines : forall mi sc l b x,
  find (fun b => cond_node b l) (flatten sc) = Some b ->
  should_cover_cond mi sc l = true ->
  is_case b = false -> (is_if b && has_elif b) = false ->
  in_between x (arm_of ABody b) (arm_of AOrelse b) = true ->
  should_cover_line mi sc x = true.
Proof. exact should_cover_cond_else. Qed.
Print Assumptions C08_cond_else_lines.

Theorem C08_pred_goal_refuted :
  exists mi cos, pred_goals mi cos = [Some []; Some [true]] /\
    exists sc, get_scope mi 1 = Some sc /\ should_cover_line mi sc 3 = false /\ In 3 (no_cover mi)
               /\ ~ In 3 (line_goals mi cos).
Proof. exact pred_goal_refuted. Qed.
Print Assumptions C08_pred_goal_refuted.
