(* C12 — Cached fitness and coverage values are never stale.
   Only statements, closed by [exact]; model in Models/C12.v, proofs in Proofs/C12.v.

   Reading guide.  A chromosome is a body (test case: content code + last execution result; suite:
   list of test-case chromosomes), the `changed` flag, registered functions and three caches.
   [tstep]/[sstep] are the operations of the Chromosome/ComputationCache interface; [Edit b flag]
   stands for ANY operator (mutation, crossover, suite edit): new body, new value of the flag.
   [tdisc]/[sdisc] is the flag discipline + "queries name registered functions":
     Edit b fl   : the new body is consistent with the flag, and fl = false only if the flag was
                   already clear and the content is unchanged (every content change sets `changed`;
                   a member edit that changes content also sets the suite's flag);
     GetXFor f   : f is registered;   SetFit/SetCov: registered key, correct value unless dirty.
   [tspec]/[sspec] say that the answer equals the value computed by the oracle functions on the
   CURRENT content (= recomputed from scratch) and is never KeyError. *)
From Coq Require Import List ZArith Bool.
From Verif Require Import Models.C12 Proofs.C12.
Import ListNotations. Import C12. Open Scope Z_scope.

(* One operation: invariant preserved, answer correct, content untouched by non-Edit operations. *)
Theorem C12_testcase_step : forall O t op, TInv O t -> tdisc O t op ->
  TInv O (fst (tstep O t op)) /\ tspec O t op (snd (tstep O t op)) /\
  frame _ _ tcur t op (fst (tstep O t op)).
Proof. exact tstep_correct. Qed.
Print Assumptions C12_testcase_step.

Theorem C12_suite_step : forall O s op, SInv O s -> sdisc O s op ->
  SInv O (fst (sstep O s op)) /\ sspec O s op (snd (sstep O s op)).
Proof. exact sstep_correct. Qed.
Print Assumptions C12_suite_step.

(* Every history (any length, any interleaving of edits, clones, registrations and queries in any
   order): as long as the discipline was respected so far, every answer is the from-scratch value. *)
Theorem C12_testcase_history : forall O ops t, TInv O t -> thist_ok O t ops.
Proof. exact tc_history_correct. Qed.
Print Assumptions C12_testcase_history.

Theorem C12_suite_history : forall O ops s, SInv O s -> shist_ok O s ops.
Proof. exact suite_history_correct. Qed.
Print Assumptions C12_suite_history.

(* Freshly created chromosomes satisfy the invariant; it is preserved over fold_left step. *)
Theorem C12_new_testcase : forall O c, TInv O (tnew c).
Proof. exact tnew_inv. Qed.
Print Assumptions C12_new_testcase.

Theorem C12_new_suite : forall O, SInv O snew.
Proof. exact snew_inv. Qed.
Print Assumptions C12_new_suite.

Theorem C12_testcase_invariant : forall O ops t, TInv O t -> tdisciplined O t ops -> TInv O (trun_hist O t ops).
Proof. exact tc_history_invariant. Qed.
Print Assumptions C12_testcase_invariant.

Theorem C12_suite_invariant : forall O ops s, SInv O s -> sdisciplined O s ops -> SInv O (srun_hist O s ops).
Proof. exact suite_history_invariant. Qed.
Print Assumptions C12_suite_invariant.

(* The specification spelled out for the individual queries. *)
Theorem C12_fitness_for : forall O t f, TInv O t -> In f (funcs t) ->
  snd (tstep O t (GetFitnessFor f)) = OVal (tF O f (content t)).
Proof. exact fitness_for_fresh. Qed.
Print Assumptions C12_fitness_for.

(* covered verdict: the cache may derive it from the fitness value; with covered <-> fitness 0
   (property C10) it is the value of compute_is_covered on the current content *)
Theorem C12_is_covered : forall O t f, TInv O t -> In f (funcs t) ->
  (forall c, tK O f c = (tF O f c =? 0)) ->
  snd (tstep O t (GetIsCovered f)) = OBool (tK O f (content t)).
Proof. exact is_covered_fresh. Qed.
Print Assumptions C12_is_covered.

Theorem C12_coverage_for : forall O t c, TInv O t -> In c (cfuncs t) ->
  snd (tstep O t (GetCoverageFor c)) = OVal (tC O c (content t)).
Proof. exact coverage_for_fresh. Qed.
Print Assumptions C12_coverage_for.

Theorem C12_fitness_sum : forall O t, TInv O t -> NoDup (funcs t) ->
  snd (tstep O t GetFitness) = OVal (zsum (map (fun f => tF O f (content t)) (funcs t))).
Proof. exact fitness_sum_fresh. Qed.
Print Assumptions C12_fitness_sum.

Theorem C12_coverage_mean : forall O t, TInv O t -> NoDup (cfuncs t) -> cfuncs t <> [] ->
  snd (tstep O t GetCoverage) = OMean (zsum (map (fun c => tC O c (content t)) (cfuncs t))) (len (cfuncs t)).
Proof. exact coverage_mean_fresh. Qed.
Print Assumptions C12_coverage_mean.

Theorem C12_suite_fitness_for : forall O s f, SInv O s -> In f (funcs s) ->
  snd (sstep O s (SG (GetFitnessFor f))) = OVal (sF O f (map content (body s))).
Proof. exact suite_fitness_for_fresh. Qed.
Print Assumptions C12_suite_fitness_for.

Theorem C12_suite_coverage_for : forall O s c, SInv O s -> In c (cfuncs s) ->
  snd (sstep O s (SG (GetCoverageFor c))) = OVal (sC O c (map content (body s))).
Proof. exact suite_coverage_for_fresh. Qed.
Print Assumptions C12_suite_coverage_for.

(* suite / test-case interplay: a suite query leaves every member consistent (stale members are
   re-executed, their flags cleared and their own caches invalidated), contents untouched *)
Theorem C12_suite_query_refreshes_members : forall O s f, SInv O s -> In f (funcs s) ->
  Forall (TInv O) (body (fst (sstep O s (SG (GetFitnessFor f))))) /\
  map content (body (fst (sstep O s (SG (GetFitnessFor f))))) = map content (body s).
Proof. exact suite_query_refreshes_members. Qed.
Print Assumptions C12_suite_query_refreshes_members.

(* the verdict cached together with a freshly computed fitness value v is (v = 0), exactly *)
Theorem C12_covered_verdict_is_fitness_zero : forall B R (run : B -> bool -> (B * bool) * R) F K C (o : cobj B) f,
  has f (fit o) = false ->
  exists v, lookup f (fit (one run F K C WFit o f)) = Some v /\
            lookup f (isc (one run F K C WFit o f)) = Some (v =? 0).
Proof. exact @fitness_verdict_exact. Qed.
Print Assumptions C12_covered_verdict_is_fitness_zero.
