(* C06 — Control-dependence graphs match the post-dominance definition.
   Only statements, closed by [exact]; see Base/Graph.v, Models/C06.v, Proofs/C06.v.
   All statements quantify over every finite graph (lists of nodes / labelled edges of any
   size); nothing is bounded.  Node ids: AUG = 0, ENTRY = 1, EXIT = 2, basic block i = i + 3. *)
From Coq Require Import List NArith Bool.
From Verif Require Import Base.Graph Models.C06 Proofs.C06.
Import ListNotations. Import Graph C06.

(* The executable reachability is sound and complete (no fuel or size hypothesis). *)
Theorem C06_reachability_decided : forall E a b, reachb E a b = true <-> reach E a b.
Proof. exact reachb_spec. Qed.
Print Assumptions C06_reachability_decided.

(* Post-dominance, defined over walks ("every walk from x to the exit passes through b"), is
   decided by the executable function used in the model. *)
Theorem C06_postdominance_decided : forall E ex b x,
  postdomb E ex b x = true <-> (forall p, walk E x p ex -> In b p).
Proof. exact postdomb_spec. Qed.
Print Assumptions C06_postdominance_decided.

(* The executable control-dependence graph is exactly the Ferrante-Ottenstein-Warren relation on
   the graph augmented with AUG -> ENTRY, AUG -> EXIT, restricted to non-artificial nodes:
   an edge labelled v from a to b exists exactly when b post-dominates the v-successor of a and
   does not strictly post-dominate a. *)
Theorem C06_cdg_is_ferrante : forall g a v b,
  In (a, v, b) (cdg_model g) <->
  In b (aug_nodes g) /\ artificial a = false /\ artificial b = false /\
  exists s, In (a, v, s) (aug_edges g) /\
            postdom (uedges (aug_edges g)) EXIT b s /\
            ~ (b <> a /\ postdom (uedges (aug_edges g)) EXIT b a).
Proof. exact cdg_model_spec. Qed.
Print Assumptions C06_cdg_is_ferrante.

(* The decidable well-formedness check implies the CFG shape the property states: artificial entry
   without predecessor, artificial exit without successor, every block reachable from the entry
   (and able to reach the exit); entry and exit are the only such nodes. *)
Theorem C06_wellformed_cfg : forall g, cfg_wfb g = true -> wf g.
Proof. exact cfg_wfb_sound. Qed.
Print Assumptions C06_wellformed_cfg.

Theorem C06_single_entry : forall g, wf g ->
  forall n, In n (nodes g) -> n <> ENTRY -> exists a v, In (a, v, n) (edges g).
Proof. exact wf_single_entry. Qed.
Print Assumptions C06_single_entry.

Theorem C06_single_exit : forall g, wf g ->
  forall n, In n (nodes g) -> n <> EXIT -> exists v b, In (n, v, b) (edges g).
Proof. exact wf_single_exit. Qed.
Print Assumptions C06_single_exit.

(* Every block is reachable from the augmented entry in the control-dependence graph
   (also used by C07). *)
Theorem C06_cdg_root_reachable : forall g, wf g ->
  forall n, In n (nodes g) -> n <> ENTRY -> n <> EXIT -> reach (uedges (cdg_model g)) AUG n.
Proof. exact cdg_root_reachable. Qed.
Print Assumptions C06_cdg_root_reachable.

(* Root dependence for nodes not dependent on any branch: a block whose control dependencies
   (get_control_dependencies) are empty is control dependent on the root. *)
Theorem C06_root_or_dependency : forall g n,
  wf g -> In n (nodes g) -> n <> ENTRY -> n <> EXIT ->
  is_root_model (cdg_model g) n = true \/ deps_model (cdg_model g) n <> [].
Proof. exact root_or_dependency. Qed.
Print Assumptions C06_root_or_dependency.

(* Meaning of the two queries on any CDG: transitive over unlabelled edges. *)
Theorem C06_dependencies_spec : forall C n p v,
  In (p, v) (deps_model C n) <->
  exists x, In (p, Some v, x) C /\ p <> AUG /\ reach (unl C) x n.
Proof. exact deps_model_spec. Qed.
Print Assumptions C06_dependencies_spec.

Theorem C06_root_spec : forall C n,
  is_root_model C n = true <-> exists v x, In (AUG, v, x) C /\ reach (unl C) x n.
Proof. exact is_root_model_spec. Qed.
Print Assumptions C06_root_spec.

(* Every reported control dependency (p, v) is a real outcome v of a branch at p in the CFG. *)
Theorem C06_dependency_is_branch : forall g n p v,
  wf g -> In (p, v) (deps_model (cdg_model g) n) -> exists s, In (p, Some v, s) (edges g).
Proof. exact dependency_is_branch. Qed.
Print Assumptions C06_dependency_is_branch.

(* Translation validation: when the checker accepts a case (CFG and CDG dumped from Pynguin), the
   dumped CFG is well-formed and the dumped CDG is exactly the Ferrante relation of that CFG. *)
Theorem C06_checker_sound : forall g C os,
  check_case (g, C, os) = true ->
  wf g /\
  (forall a v b, In (a, v, b) C <->
     In b (aug_nodes g) /\ artificial a = false /\ artificial b = false /\
     cd_spec (aug_edges g) EXIT a v b).
Proof. exact check_case_sound. Qed.
Print Assumptions C06_checker_sound.
