(* C05 — Tracing keeps recording after an exception inside traced code.
   Only statements, closed by [exact]; see Models/C05.v (model) and Proofs/C05.v (proofs).
   [run true]: the brackets temporarily_disable/temporarily_enable restore the switch in a
   `finally` clause (the code after fixes/C05-1; checked against the source on every run). *)
From Coq Require Import List ZArith Bool.
From Verif Require Import Models.C05 Proofs.C05.
Import ListNotations. Import C05.

(* The switch after any sequence of events - callbacks whose bodies raise at any depth, nested
   brackets - equals the switch before. *)
Theorem C05_enabled_restored : forall evs st, enabled (run true evs st) = enabled st.
Proof. exact run_enabled. Qed.
Print Assumptions C05_enabled_restored.

(* ... in particular at the end of each statement executed by TestCaseExecutor *)
Theorem C05_statement_restores : forall before body after st,
  enabled (run true (statement before body after) st) = enabled st.
Proof. exact statement_enabled. Qed.
Print Assumptions C05_statement_restores.

(* Whatever happened before in the test case (pre is arbitrary: any exceptions raised in any
   callbacks and caught by the subject), a line executed afterwards is recorded, and so is a branch
   (a predicate whose evaluation does not raise); and it stays recorded. *)
Theorem C05_line_recorded_after_exceptions : forall pre id post st,
  enabled st = true -> In id (lines (run true (pre ++ Line id :: post) st)).
Proof. exact line_recorded_after. Qed.
Print Assumptions C05_line_recorded_after_exceptions.

Theorem C05_branch_recorded_after_exceptions : forall pre id inner post st,
  enabled st = true -> In id (preds (run true (pre ++ Pred id inner false :: post) st)).
Proof. exact pred_recorded_after. Qed.
Print Assumptions C05_branch_recorded_after_exceptions.

Theorem C05_instruction_recorded_after_exceptions : forall pre id inner post st,
  enabled st = true -> In id (instrs (run true (pre ++ Track id inner false :: post) st)).
Proof. exact instr_recorded_after. Qed.
Print Assumptions C05_instruction_recorded_after_exceptions.

(* What must not change: nothing recorded is lost, and a disabled tracer records nothing. *)
Theorem C05_nothing_lost : forall fin evs st, le_state st (run fin evs st).
Proof. exact run_mono. Qed.
Print Assumptions C05_nothing_lost.

Theorem C05_disabled_records_nothing : forall fin id st,
  enabled st = false ->
  run_ev fin (Line id) st = st /\ (forall inner r, run_ev fin (Pred id inner r) st = st) /\
  (forall inner r, run_ev fin (Track id inner r) st = st).
Proof. exact disabled_records_nothing. Qed.
Print Assumptions C05_disabled_records_nothing.

(* Threads: the switch is thread-local.  In every interleaving of the events of any number of threads
   (one of them may be abandoned inside a bracket after a timeout and leave it at any later time), the
   state of a thread is the result of its own events only; so its switch is restored, and a test case
   running in a fresh thread records what it executes. *)
Theorem C05_threads_independent : forall fin sched T t,
  run_schedule fin sched T t = run fin (own t sched) (T t).
Proof. exact run_schedule_thread. Qed.
Print Assumptions C05_threads_independent.

Theorem C05_schedule_restores : forall sched T t,
  enabled (run_schedule true sched T t) = enabled (T t).
Proof. exact schedule_enabled. Qed.
Print Assumptions C05_schedule_restores.

Theorem C05_fresh_thread_records : forall sched T t pre id post,
  T t = st_fresh -> own t sched = pre ++ Line id :: post ->
  In id (lines (run_schedule true sched T t)).
Proof. exact fresh_thread_records. Qed.
Print Assumptions C05_fresh_thread_records.

(* The unrepaired brackets (no `finally`) violate the property: one predicate whose operator
   raises leaves the tracer disabled, the next line is lost. *)
Theorem C05_without_finally_refuted :
  exists evs id, enabled (run false evs st0) = false /\ ~ In id (lines (run false (evs ++ [Line id]) st0)).
Proof. exact without_finally_refuted. Qed.
Print Assumptions C05_without_finally_refuted.
