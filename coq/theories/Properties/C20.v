(* C20 — Rendered assertions are valid Python and hold for the observed value.
   Only statements, closed by [exact]; model: Models/C20.v, proofs: Proofs/C20.v, shared value and
   expression model: Base/PyExpr.v.  Token round trips are Section hypotheses (see Properties/C23.v). *)
From Coq Require Import List ZArith Bool String.
From Coq Require Import PrimFloat.
From Verif Require Import Base.PyExpr Models.C20 Proofs.C20.
Import ListNotations. Import PyExpr C20. Open Scope Z_scope.

Section Atoms.
  Variables ftok itok stok btok : Type.
  Variable repr_float : float -> ftok.
  Variable repr_nat : Z -> itok.
  Variable repr_str : pystr -> stok.
  Variable repr_bytes : pystr -> btok.
  Variable parse_float : ftok -> float.
  Variable parse_int : itok -> Z.
  Variable parse_str : stok -> pystr.
  Variable parse_bytes : btok -> pystr.
  Hypothesis float_rt : forall f, ftok_ok f = true -> parse_float (repr_float f) = f.
  Hypothesis nat_rt : forall n, 0 <= n -> parse_int (repr_nat n) = n.
  Hypothesis str_rt : forall s, parse_str (repr_str s) = s.
  Hypothesis bytes_rt : forall s, parse_bytes (repr_bytes s) = s.

  Notation eval := (PyExpr.eval parse_float parse_int parse_str parse_bytes).
  Notation render := (C20.render ftok itok stok btok repr_float repr_nat repr_str repr_bytes).
  Notation check_value := (C20.check_value ftok itok stok btok parse_float parse_int parse_str parse_bytes).
  Notation name_expr := (C20.name_expr ftok itok stok btok).

  (* Rendering never fails: for EVERY observed value v (assertable objects of any nesting, every float
     incl. -0.0 / inf / NaN / subnormals, every other object through its type and length), every
     assertion the observer records for it renders to an expression without a node libcst rejects
     (no signed Float/Integer token, no empty set display, no repr()-as-string). *)
  Theorem C20_render_total : forall g alias sut prec x attrs v a,
    (forall m q k, v = VObj m q (Some k) -> 0 <= k) ->
    In a (check_value g alias sut x attrs v) -> valid (render alias prec a) = true.
  Proof. exact (render_total _ _ _ _ _ _ _ _ _ _ _ _). Qed.

  (* The rendered assertion evaluates to True against the observed value, in every namespace g of an
     exported test file in which the source expression denotes the value, float/complex/set/len/type/
     isinstance are the builtins, and the enum members occurring in the value are reachable as
     ClassName.MEMBER — for every recorded assertion except the FloatAssertion on NaN. *)
  Theorem C20_assert_holds : forall g alias sut prec x attrs v a,
    builtins_visible g = true ->
    eval g (name_expr x attrs) = Ok v ->
    wfb v = true -> enums_bound g v = true ->
    (forall m q k, v = VObj m q (Some k) -> 0 <= k) ->
    PrimFloat.ltb prec zero = false -> fnan prec = false ->
    In a (check_value g alias sut x attrs v) -> is_nan_float a = false ->
    eval g (render alias prec a) = Ok (VBool true).
  Proof. exact (assert_holds _ _ _ _ _ _ _ _ _ _ _ _ float_rt nat_rt str_rt bytes_rt). Qed.
End Atoms.

(* The full statement (without `is_nan_float a = false`) is false of the code as it is: *)
Theorem C20_float_nan_refuted :
  exists g a, In a (check_value0 g "mod_" "mod" "var_0" [] (VFloat nan)) /\
              eval0 g (C20.name_expr float Z pystr pystr "var_0" []) = Ok (VFloat nan) /\
              eval0 g (render0 "mod_" 0x1.47ae147ae147bp-7%float a) = Ok (VBool false).
Proof. exact float_nan_refuted. Qed.

Print Assumptions C20_render_total.
Print Assumptions C20_assert_holds.
Print Assumptions C20_float_nan_refuted.
