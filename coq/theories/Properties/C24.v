(* C24 — Exported tests round-trip through the seed parser.
   Only statements, closed by [exact]; see Models/C24.v (renderer on abstract expressions, the shape
   parsers of parse_assertion, the root-name collector and the per-function deserializer, after the
   repairs C24-attribute-names-are-not-reads and C24-assertion-follows-its-statement) and Proofs/C24.v.
   Partial: libcst, literal text (C20/C23) and the statement forms beyond "reads names, may bind one
   variable" are outside the model and covered by the whole-file oracle of harness/props/C24.py. *)
From Coq Require Import List NArith Bool.
From Verif Require Import Models.C24 Proofs.C24.
Import ListNotations. Import C24.

(* parse o render on assertion forms: the forms parse_assertion supports come back unchanged ... *)
Theorem C24_parse_render_liftable : forall known f,
  liftable known f = true -> parse known (render f) = Some f.
Proof. exact parse_render_liftable. Qed.
Print Assumptions C24_parse_render_liftable.

(* ... every other rendered form (pytest.approx, f-string type name, attribute-path references, enum
   and non-literal values) is not recognised, and with its variable in scope it is kept as a raw
   statement, never dropped *)
Theorem C24_classify_render : forall known f,
  src_known known f = true ->
  classify known (render f) = if liftable known f then Lift f else Raw.
Proof. exact classify_render. Qed.
Print Assumptions C24_classify_render.

(* whatever is lifted renders to the same code *)
Theorem C24_render_parse_render : forall known f f',
  parse known (render f) = Some f' -> render f' = render f.
Proof. exact render_parse_render. Qed.
Print Assumptions C24_render_parse_render.

(* Whole functions: if every name an item reads is ambient or bound by an earlier statement of the
   function, the parsed test case renders to exactly the exported item sequence: no statement or
   assertion is lost, duplicated, moved or reordered. *)
Theorem C24_roundtrip_partial : forall items,
  closed [] items = true -> rerender (deserialize items) = items.
Proof. exact roundtrip. Qed.
Print Assumptions C24_roundtrip_partial.

(* a lifted assertion lands on the statement it follows *)
Theorem C24_attach_position : forall items f,
  closed [] (items ++ [IAssert f]) = true ->
  liftable (kn (deserialize items)) f = true ->
  exists p r, acc (deserialize items) = p :: r /\
    acc (deserialize (items ++ [IAssert f])) = {| p_item := p_item p; p_rasserts := f :: p_rasserts p |} :: r.
Proof. exact attach_position. Qed.
Print Assumptions C24_attach_position.

(* The full statement  forall items, rerender (deserialize items) = items  is false: a statement that
   reads a name the parser does not know (an exception class the exported file imports from a third
   module, used in `with pytest.raises(Exc):`) is dropped.  Known finding. *)
Theorem C24_roundtrip_refuted : exists items, rerender (deserialize items) <> items.
Proof. exact unknown_name_refuted. Qed.
Print Assumptions C24_roundtrip_refuted.
