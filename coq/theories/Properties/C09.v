(* C09 — Dynamic slices are sound and checked lines were executed.
   Only statements, closed by [exact]; model in Models/C09.v, proofs in Proofs/C09.v.
   [slice t c flow] is DynamicSlicer.slice for criterion [c] on the instruction states [flow] the
   ExecutionFlowBuilder reconstructs (newest first); [t] are the CDG/CFG query tables. *)
From Coq Require Import List ZArith.
From Verif Require Import Models.C09 Proofs.C09.
Import ListNotations. Import C09. Open Scope Z_scope.

(* (1) every slice contains only executed instructions and its criterion — all flows, all tables *)
Theorem C09_slice_subset_trace : forall t c flow sl,
  slice t c flow = Some sl -> forall x, In x sl -> x = c \/ In x flow.
Proof. exact slice_subset_trace. Qed.
Print Assumptions C09_slice_subset_trace.

(* (2) each line reported as checked is the registered line of an executed module instruction:
   per slice (statement criteria incl. the return-None cleansing, assertion criteria) ... *)
Theorem C09_checked_subset_executed : forall t lt k c flow sl ls,
  slice t c flow = Some sl -> model_lines lt k sl = Some ls ->
  forall i, In i ls -> executed_line lt c flow i.
Proof. exact checked_subset_executed. Qed.
Print Assumptions C09_checked_subset_executed.

(* ... for the result of compute_statement_checked_lines ... *)
Theorem C09_statement_checked_lines_executed : forall t lt cs ls,
  stmt_union t lt cs = Some ls ->
  forall i, In i ls -> exists c, In c cs /\ executed_line lt (sc_crit c) (sc_flow c) i.
Proof. exact statement_checked_lines_executed. Qed.
Print Assumptions C09_statement_checked_lines_executed.

(* ... and for the lines counted by compute_assertion_checked_coverage *)
Theorem C09_assertion_checked_lines_executed : forall t lt cs ls,
  assert_lines t lt cs = Some ls ->
  forall i, In i ls -> exists c, In c cs /\ executed_line lt (sc_crit c) (sc_flow c) i.
Proof. exact assertion_checked_lines_executed. Qed.
Print Assumptions C09_assertion_checked_lines_executed.

(* (3a) stack bookkeeping: for every trace (any pop/push counts), the (consumer, producer) pairs the
   backward simulation finds are exactly the pairs of the forward operand-stack machine; with a
   non-empty start stack S the not yet matched consumers [Bk tr] line up with S *)
Theorem C09_stack_producer : forall (A : Type) (po pu : A -> nat) (tr : list A) (x : A * A),
  In x (Fw po pu [] tr) <-> In x (Ed po pu tr).
Proof. exact @stack_producer. Qed.
Print Assumptions C09_stack_producer.

Theorem C09_stack_producer_gen : forall (A : Type) (po pu : A -> nat) (tr S : list A) (x : A * A),
  In x (Fw po pu S tr) <-> In x (Ed po pu tr) \/ In x (combine (Bk po pu tr) S).
Proof. exact @stack_producer_gen. Qed.
Print Assumptions C09_stack_producer_gen.

(* ... and the model's TraceStack is that simulation (one frame, no exception) *)
Theorem C09_trace_stack_simulation : forall t c flow s0 s,
  forallb frag_instr flow = true -> is_store c = false -> is_access c = false -> is_use c = false ->
  NoDup (rev flow ++ [c]) ->
  init t c = Some s0 -> run t s0 flow = Some s ->
  exists done fa rest,
    map fst done = rev flow ++ [c] /\
    frames s = mkF (map ent (Bk opo opu done)) fa :: rest /\
    (forall e, In (e, true) done <-> In e (in_slice s)).
Proof. exact trace_stack_simulation. Qed.
Print Assumptions C09_trace_stack_simulation.

(* (3b) soundness (dependence closure), PARTIAL: straight-line code in one frame over local and
   global names and the operand stack; every instruction executed once.
   Full statement (not proved; sampled by the shadow dependence interpreter of the harness):
     forall t c flow sl, supported_fragment c flow -> slice t c flow = Some sl ->
       forall i, full_ddep_star (rev flow ++ [c]) c i -> In i sl
   where full_ddep additionally has control dependence through the CDG, call/return linking across
   frames, attribute and container definitions by address, and repeated execution of an instruction.
   Missing: the invariant for instr_ctrl_deps/dominated-node removal, for frame push/pop with
   code_object_dependent, and for attr_uses/var_address_uses. *)
Theorem C09_slice_closed_partial : forall t c flow sl,
  forallb frag_instr flow = true -> is_store c = false -> is_access c = false -> is_use c = false ->
  NoDup (map uid (rev flow ++ [c])) ->
  slice t c flow = Some sl ->
  forall i, ddep_star (rev flow ++ [c]) c i -> In i sl.
Proof. exact slice_closed_partial. Qed.
Print Assumptions C09_slice_closed_partial.

(* Without the fragment restriction the closure is false of the faithful model (known finding
   "attribute-base"): the operand of a non-method attribute access enters the slice but its uses are
   not followed, so `q = o` is missing from the slice of `return q.w`. *)
Theorem C09_slice_closed_refuted :
  exists t c flow sl j i,
    slice t c flow = Some sl /\ NoDup (map uid (rev flow ++ [c])) /\
    In j sl /\ ddep (rev flow ++ [c]) j i /\ ~ In i sl.
Proof. exact slice_closed_refuted. Qed.
Print Assumptions C09_slice_closed_refuted.
