(* C03 — Reported branch outcomes equal the branches actually taken (partial).
   Only statements, closed by [exact].  Model: Models/C03.v (instrumented CFG of a code object: predicate
   probes in front of conditional jumps, loop probes at body entry and after END_FOR, edges labelled by
   get_branch_type).  Tie: every real instrumented CFG of the corpus is extracted (jump opcode, edge
   labels from the real networkx graph, probe kind from the real call arguments, probe positions, entry
   probes, handlers) and [check_cfg] is evaluated on it inside Coq; the registry is compared in the
   harness.  Outside the theorems: CPython's jump semantics, that the tracer's zero-distance side is the
   truth of the tested value (C04), mapping of instruction offsets (direct oracle). *)
From Coq Require Import List ZArith.
From Verif Require Import Models.C03 Proofs.C03.
Import ListNotations. Import C03.

(* For every CFG that passes the decidable premises and EVERY run from the entry block (any number of
   block visits, any tested values, exceptions leaving any block for any handler), the sequence of
   (predicate, outcome) pairs the tracer records equals the sequence of labelled CFG edges taken. *)
Theorem C03_branches_exact : forall g run, check_cfg g = true -> valid g 0 run = true ->
  recorded_run g run = truth_run g None run.
Proof. exact branches_exact. Qed.
Print Assumptions C03_branches_exact.

(* hence a branch is reported as covered exactly when the interpreter took it at least once *)
Theorem C03_covered_iff_taken : forall g run pid v, check_cfg g = true -> valid g 0 run = true ->
  (In (pid, v) (recorded_run g run) <-> In (pid, v) (truth_run g None run)).
Proof. exact covered_iff_taken. Qed.
Print Assumptions C03_covered_iff_taken.

(* the premise about one predicate block is exactly: recorded outcome = label of the edge taken,
   for every value the jump can test *)
Theorem C03_cond_ok_sound : forall lbl j p v, cond_ok lbl j p = true -> possible v = true ->
  edge_label lbl j v = recorded p v.
Proof. exact cond_ok_sound. Qed.
Print Assumptions C03_cond_ok_sound.

(* Before the repair POP_JUMP_IF_NONE was labelled like a jump-if-false although its probe records
   "is None": a run exists whose report differs from the edges taken (replayed on the real code:
   `if x is not None: ...` called with None reported the True branch). *)
Theorem C03_old_none_labelling_refuted :
  exists g run, valid g 0 run = true /\ recorded_run g run <> truth_run g None run.
Proof. exact old_none_labelling_refuted. Qed.
Print Assumptions C03_old_none_labelling_refuted.
