(* C10 — Fitness values, coverage values and covered verdicts agree.
   Statements only; model in Models/C10.v, proofs in Proofs/C10.v.  Numbers are exact rationals with
   an explicit infinity for distances (the implementation computes in binary64). *)
From Coq Require Import List ZArith QArith.
From Verif Require Import Models.C10 Proofs.C10.
Import ListNotations. Import C10. Open Scope Q_scope.

Theorem C10_normalise_range : forall d, dist_nonneg d = true -> 0 <= normalise d /\ normalise d <= 1.
Proof. exact normalise_range. Qed.
Print Assumptions C10_normalise_range.

Theorem C10_normalise_zero_iff : forall d, dist_nonneg d = true ->
  (normalise d == 0 <-> dist_is_zero d = true).
Proof. exact normalise_zero_iff. Qed.
Print Assumptions C10_normalise_zero_iff.

Theorem C10_normalise_mono : forall a b,
  dist_nonneg a = true -> dist_le a b = true -> normalise a <= normalise b.
Proof. exact normalise_mono. Qed.
Print Assumptions C10_normalise_mono.

(* suite branch fitness (with arbitrary exclusion sets) is finite (a rational) and non-negative *)
Theorem C10_branch_fitness_nonneg : forall t r ec et ef,
  dists_nonneg (true_d t) -> dists_nonneg (false_d t) -> 0 <= branch_fitness_ex t r ec et ef.
Proof. exact branch_fitness_nonneg. Qed.
Print Assumptions C10_branch_fitness_nonneg.

(* a suite is reported covered exactly when its fitness is zero *)
Theorem C10_suite_covered_iff_fitness_zero : forall t r ec et ef,
  dists_nonneg (true_d t) -> dists_nonneg (false_d t) ->
  (branch_fitness_ex t r ec et ef == 0 <-> branch_is_covered_ex t r ec et ef = true).
Proof. exact branch_fitness_zero_iff_covered. Qed.
Print Assumptions C10_suite_covered_iff_fitness_zero.

Theorem C10_branch_coverage_in_unit : forall t r, Valid t r ->
  0 <= branch_coverage t r /\ branch_coverage t r <= 1.
Proof. exact branch_coverage_range. Qed.
Print Assumptions C10_branch_coverage_in_unit.

(* a suite's branch fitness is zero exactly when its branch coverage is 1 *)
Theorem C10_branch_fitness_zero_iff_coverage_one : forall t r,
  Valid t r -> NoDup (branchless r) -> NoDup (predicates r) ->
  (branch_fitness t r == 0 <-> branch_coverage t r == 1).
Proof. exact branch_fitness_zero_iff_coverage_one. Qed.
Print Assumptions C10_branch_fitness_zero_iff_coverage_one.

Theorem C10_line_metrics_agree : forall t r, Valid t r ->
  (0 <= line_fitness t r)%Z /\
  (0 <= line_coverage t r /\ line_coverage t r <= 1) /\
  (line_fitness t r = 0%Z <-> line_is_covered t r = true) /\
  (line_is_covered t r = true <-> line_coverage t r == 1).
Proof. exact line_metrics_agree. Qed.
Print Assumptions C10_line_metrics_agree.

Theorem C10_checked_metrics_agree : forall t r, Valid t r ->
  (0 <= checked_fitness t r)%Z /\
  (0 <= checked_coverage t r /\ checked_coverage t r <= 1) /\
  (checked_fitness t r = 0%Z <-> checked_is_covered t r = true) /\
  (checked_is_covered t r = true <-> checked_coverage t r == 1).
Proof. exact checked_metrics_agree. Qed.
Print Assumptions C10_checked_metrics_agree.

(* goal level: covered exactly when the goal's fitness is zero; fitness non-negative *)
Theorem C10_branch_goal_zero_iff_covered : forall t r p code_of_p diameter path_len,
  Valid t r -> (1 <= diameter)%Z ->
  (forall e n, path_len e = Some n -> e <> p -> (1 <= n)%Z) ->
  (dmem (exec_pred t) p = true -> memZ code_of_p (exec_code t) = true) ->
  forall value,
  branch_goal_fitness t p value code_of_p diameter path_len == 0 <->
  branch_goal_covered t p value = true.
Proof. exact branch_goal_zero_iff_covered. Qed.
Print Assumptions C10_branch_goal_zero_iff_covered.

Theorem C10_branch_goal_fitness_nonneg : forall t r p code_of_p diameter path_len,
  Valid t r -> (1 <= diameter)%Z ->
  (forall e n, path_len e = Some n -> e <> p -> (1 <= n)%Z) ->
  (dmem (exec_pred t) p = true -> memZ code_of_p (exec_code t) = true) ->
  forall value, 0 <= branch_goal_fitness t p value code_of_p diameter path_len.
Proof. exact branch_goal_fitness_nonneg. Qed.
Print Assumptions C10_branch_goal_fitness_nonneg.

Theorem C10_line_goal_agree : forall t l,
  (line_goal_fitness t l == 0 <-> line_goal_covered t l = true) /\ 0 <= line_goal_fitness t l.
Proof. exact line_goal_agree. Qed.
Print Assumptions C10_line_goal_agree.

Theorem C10_branchless_goal_agree : forall t c,
  (branchless_goal_fitness t c == 0 <-> branchless_goal_covered t c = true) /\
  0 <= branchless_goal_fitness t c.
Proof. exact branchless_goal_agree. Qed.
Print Assumptions C10_branchless_goal_agree.

(* the verdict the computation cache derives from a fitness value equals the direct verdict *)
Theorem C10_cache_verdicts_agree : forall t r ec et ef,
  dists_nonneg (true_d t) -> dists_nonneg (false_d t) ->
  verdict_from_fitness (branch_fitness_ex t r ec et ef) = branch_is_covered_ex t r ec et ef.
Proof. exact cache_verdicts_agree_suite. Qed.
Print Assumptions C10_cache_verdicts_agree.
