(* C04 — Branch distances are non-negative and zero exactly for the outcome taken.
   Only statements, closed by [exact]; see Models/C04.v (model) and Proofs/C04.v (proofs).

   k  : which tracer callback / comparison kind (==, !=, <, <=, >, >=, in, not in, is, is not,
        truthiness, exception match, auxiliary in-presence predicate)
   os : the right operand is a one-shot iterator without __contains__
   o  : what Python's own operator does on the pair of runtime values (Ret truth-value | Raise exn)
   u  : what the distance heuristic does on the pair (any float, or raises)
   All four are universally quantified: the statements hold for every pair of runtime values. *)
From Coq Require Import ZArith Bool PrimFloat.
From Verif Require Import Models.C04 Proofs.C04.
Import C04.

(* Main theorem, order form (no fact about floating-point arithmetic is used): whenever distances
   are computed, Python's operator returned some truth value t (for the auxiliary in-presence
   predicate: or raised, which counts as "absent"); the distance of the side t is the float 0.0
   and the other distance d satisfies the IEEE comparison 0.0 < d. *)
Theorem C04_distances_sound : forall k os o u dt df,
  distances k os o u = inl (Some (dt, df)) ->
  exists t, recorded_outcome k o t /\ taken_zero_other_pos t dt df.
Proof. exact distances_sound. Qed.
Print Assumptions C04_distances_sound.

(* The property as stated, for what the callback records (after _update_metrics): both distances
   are non-negative and not NaN, the true distance is zero iff the outcome is True, the false
   distance is zero iff the outcome is False. *)
Theorem C04_recorded_sound : forall k os o u dt df,
  callback k os o u = Recorded dt df ->
  exists t, recorded_outcome k o t /\
    nonneg_not_nan dt /\ nonneg_not_nan df /\ (is_zero dt <-> t = true) /\ (is_zero df <-> t = false).
Proof. exact callback_sound. Qed.
Print Assumptions C04_recorded_sound.

Theorem C04_exactly_one_zero : forall k os o u dt df,
  callback k os o u = Recorded dt df -> (is_zero dt /\ ~ is_zero df) \/ (~ is_zero dt /\ is_zero df).
Proof. exact callback_exactly_one_zero. Qed.
Print Assumptions C04_exactly_one_zero.

(* Computing the distances raises only if the comparison itself raises, and then the same
   exception; in particular the assertions of _update_metrics never fire.  The auxiliary
   in-presence predicate never raises. *)
Theorem C04_raises_only_if_python_raises : forall k os o u e,
  callback k os o u = Raised e -> o = Raise e /\ k <> KInPresence.
Proof. exact callback_raise. Qed.
Print Assumptions C04_raises_only_if_python_raises.

(* What must not change: an evaluation whose operator returns is recorded, unless it is a
   membership test on a one-shot iterator, which is exactly what is skipped. *)
Theorem C04_records_when_python_returns : forall k os t u,
  is_membership k && os = false -> exists dt df, callback k os (Ret t) u = Recorded dt df.
Proof. exact callback_records. Qed.
Print Assumptions C04_records_when_python_returns.

Theorem C04_skips_exactly_iterators : forall k os o u,
  distances k os o u = inl None <-> is_membership k && os = true.
Proof. exact distances_skip. Qed.
Print Assumptions C04_skips_exactly_iterators.

(* The string heuristics never need the sanitiser: zero exactly when the order holds. *)
Theorem C04_string_lt_distance : forall a b,
  (lex_ltb a b = true -> string_lt_distance a b = 0%Z) /\
  (lex_ltb a b = false -> (0 < string_lt_distance a b)%Z).
Proof. exact string_lt_distance_spec. Qed.
Print Assumptions C04_string_lt_distance.

Theorem C04_string_le_distance : forall a b,
  (lex_leb a b = true -> string_le_distance a b = 0%Z) /\
  (lex_leb a b = false -> (0 < string_le_distance a b)%Z).
Proof. exact string_le_distance_spec. Qed.
Print Assumptions C04_string_le_distance.

Theorem C04_lex_le_is_lt_or_eq : forall a b, lex_leb a b = true <-> (lex_ltb a b = true \/ a = b).
Proof. exact lex_leb_spec. Qed.
Print Assumptions C04_lex_le_is_lt_or_eq.
