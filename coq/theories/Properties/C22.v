(* C22 — Minimization never reduces coverage.
   Only statements, closed by [exact]; see Models/C22.v (model) and Proofs/C22.v (proofs).
   [cov : oracle] is an ARBITRARY function from suites to coverage vectors; every theorem holds
   for every oracle, strategy, direction and input suite. *)
From Coq Require Import List ZArith QArith.
From Verif Require Import Models.C22 Proofs.C22.
Import ListNotations. Import C22.
Close Scope Q_scope. Open Scope nat_scope.

(* (1) Coverage.  The suite _minimize leaves behind has the coverage vector of the suite it was
   given, for every oracle: either the final check passed on exactly that suite, or the
   unminimized suite was put back. *)
Theorem C22_coverage_kept : forall (cov : oracle) st d s,
  same (cov s) (cov (minimize cov st d s)) = true.
Proof. exact minimize_cov. Qed.
Print Assumptions C22_coverage_kept.

(* ... as equality of rationals, function by function, when the oracle returns one value per
   optimised coverage function *)
Theorem C22_coverage_kept_pointwise : forall (cov : oracle) st d s n,
  (forall x, length (cov x) = n) -> Forall2 Qeq (cov s) (cov (minimize cov st d s)).
Proof. exact minimize_cov_Qeq. Qed.
Print Assumptions C22_coverage_kept_pointwise.

(* (2) No new statements.  The result embeds, order-preservingly, into the original: test cases
   into test cases, statements into statements; a statement is either an original one or its
   "v = e" -> "e" form produced by remove_unused_variables. *)
Theorem C22_subsequence : forall (cov : oracle) st d s,
  Emb (Emb drv) (minimize cov st d s) s.
Proof. exact minimize_emb. Qed.
Print Assumptions C22_subsequence.

Theorem C22_subsequence_combined : forall (cov : oracle) d s,
  Emb (Emb eq) (minimize cov COMBINED d s) s.
Proof. exact minimize_combined_sub. Qed.
Print Assumptions C22_subsequence_combined.

(* (3) Asserted-on statements are kept. *)
(* the protected set holds the asserted variables and is closed under "is read by a statement
   binding a protected variable" *)
Theorem C22_protected_set : forall t,
  (forall x, In x (direct t) -> In x (protected_set t)) /\
  (forall s x u, In s t -> bound s = Some x -> In x (protected_set t) -> In u (uses s) ->
                 In u (protected_set t)).
Proof. exact protected_spec. Qed.
Print Assumptions C22_protected_set.

(* the iterative visitors return a sub-sequence that holds every statement binding a protected
   variable — for every test case, well-formed or not *)
Theorem C22_visitors_keep_protected : forall (cov : oracle) t,
  Keep (protected_set t) t (forward_visit cov t) /\ Keep (protected_set t) t (backward_visit cov t).
Proof. exact visitor_keeps. Qed.
Print Assumptions C22_visitors_keep_protected.

Theorem C22_protected_kept_CASE : forall (cov : oracle) d s0 t s x,
  In t s0 -> wf_tc t -> In s t -> bound s = Some x -> In x (direct t) ->
  exists t', In t' (minimize cov CASE d s0) /\ In s t'.
Proof. exact minimize_protected_case. Qed.
Print Assumptions C22_protected_kept_CASE.

Theorem C22_protected_kept_COMBINED : forall (cov : oracle) d s0 t s x,
  In t s0 -> In s t -> bound s = Some x -> In x (direct t) ->
  exists t', In t' (minimize cov COMBINED d s0) /\ In s t'.
Proof. exact minimize_protected_combined. Qed.
Print Assumptions C22_protected_kept_COMBINED.

(* SUITE: the full statement
     forall cov d s0 t s x, In t s0 -> wf_tc t -> In s t -> bound s = Some x -> In x (direct t) ->
       exists t', In t' (minimize cov SUITE d s0) /\ In s t'
   is FALSE of the faithful model (and of the code): TestSuiteMinimizationVisitor deletes whole
   redundant test cases, asserted-on statements included.  Known finding. *)
Theorem C22_protected_kept_SUITE_refuted :
  exists (cov : oracle) (s0 : suite) (t : tcase) (s : stmt) (x : Z),
    In t s0 /\ wf_tc t /\ In s t /\ bound s = Some x /\ In x (direct t) /\
    forall t', In t' (minimize cov SUITE FORWARD s0) -> ~ In s t'.
Proof. exact suite_protected_refuted. Qed.
Print Assumptions C22_protected_kept_SUITE_refuted.

(* what does hold: every test case that survives SUITE minimisation descends from an original
   test case and still holds all of its asserted-on statements *)
Theorem C22_protected_kept_SUITE_partial : forall (cov : oracle) d s0 t',
  In t' (minimize cov SUITE d s0) ->
  exists t, In t s0 /\ Emb drv t' t /\
    (wf_tc t -> forall s x, In s t -> bound s = Some x -> In x (direct t) -> In s t').
Proof. exact minimize_protected_suite_partial. Qed.
Print Assumptions C22_protected_kept_SUITE_partial.

(* (4) Termination: every loop strictly decreases a natural-number measure, and reaches its exit
   condition within the fuel (measure + 1) the model hands it. *)
Theorem C22_measures_decrease : forall (cov : oracle),
  (forall t a a', prot_step t a = Some a' -> length (snd a') < length (snd a)) /\
  (forall a a', fd_step a = Some a' -> unmarked (snd a') < unmarked (snd a)) /\
  (forall P orig a a', fwd_step cov P orig a = Some a' -> fwd_mu a' < fwd_mu a) /\
  (forall P orig t t', fwd_outer_step cov P orig t = Some t' -> length t' < length t) /\
  (forall P orig t t', bwd_step cov P orig t = Some t' -> length t' < length t) /\
  (forall orig a a', suite_step cov orig a = Some a' -> suite_mu a' < suite_mu a) /\
  (forall orig idx P a a', comb_step cov orig idx P a = Some a' -> comb_mu idx a' < comb_mu idx a) /\
  (forall orig Ps s s', comb_outer_step cov orig Ps s = Some s' -> total s' < total s).
Proof. exact measures_decrease. Qed.
Print Assumptions C22_measures_decrease.

Theorem C22_termination : forall (cov : oracle), all_loops_exit cov.
Proof. exact termination. Qed.
Print Assumptions C22_termination.
