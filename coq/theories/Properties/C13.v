(* C13 — The archive never loses a covered goal or a better solution.
   Only statements, closed by [exact]; model in Models/C13.v, proofs in Proofs/C13.v.

   [arun a ops] is any history of CoverageArchive.update / add_goals calls ([fold_left astep]);
   [evolves g o o'] says how the entry archived for goal g may change: it never returns to
   "uncovered", the first entry covers g, and every later change replaces [old] by a [new] with
   [repl g old new] = new covers g /\ ((old erroneous /\ new error-free) \/ size new < size old).
   [AInv] = covered keys duplicate free, every archived test covers its goal, uncovered =
   objectives \ covered, callbacks fired exactly once per covered goal. *)
From Coq Require Import List ZArith Bool.
From Verif Require Import Models.C13 Proofs.C13.
Import ListNotations. Import C13. Open Scope Z_scope.

(* ---- CoverageArchive (MOSA, DynaMOSA) ---- *)
Theorem C13_new_archive : forall objs, AInv (new_arch objs).
Proof. exact new_arch_inv. Qed.
Print Assumptions C13_new_archive.

Theorem C13_archive_history : forall ops a, AInv a ->
  AInv (arun a ops) /\ incl (objectives a) (objectives (arun a ops)) /\
  (forall g, evolves g (lookup g (covered a)) (lookup g (covered (arun a ops)))).
Proof. exact arun_ok. Qed.
Print Assumptions C13_archive_history.

Theorem C13_covered_only_grows : forall ops a, AInv a -> incl (ckeys a) (ckeys (arun a ops)).
Proof. exact covered_monotone. Qed.
Print Assumptions C13_covered_only_grows.

Theorem C13_archived_test_covers_goal : forall ops a g s, AInv a ->
  In (g, s) (covered (arun a ops)) -> covers s g = true.
Proof. exact archived_covers. Qed.
Print Assumptions C13_archived_test_covers_goal.

(* one assignment of the double loop in update = one [consider] *)
Theorem C13_replacement_rule : forall g st s old new, AInv (fst st) -> In g (objectives (fst st)) ->
  lookup g (covered (fst st)) = Some old ->
  lookup g (covered (fst (consider g st s))) = Some new -> new <> old ->
  new = s /\ covers s g = true /\
  ((erroneous old = true /\ clean s = true) \/ ssize s < ssize old).
Proof. exact replacement_rule. Qed.
Print Assumptions C13_replacement_rule.

Theorem C13_uncovered_is_complement : forall ops a g, AInv a ->
  (In g (uncovered (arun a ops)) <-> In g (objectives (arun a ops)) /\ ~ In g (ckeys (arun a ops))).
Proof. exact partition. Qed.
Print Assumptions C13_uncovered_is_complement.

Theorem C13_callbacks_once_per_goal : forall ops a, AInv a ->
  NoDup (fired (arun a ops)) /\ forall g, In g (fired (arun a ops)) <-> In g (ckeys (arun a ops)).
Proof. exact callbacks_once. Qed.
Print Assumptions C13_callbacks_once_per_goal.

(* ---- _GoalsManager.update (any goal graph, any number of rounds) ---- *)
Theorem C13_goals_manager_update : forall fuel graph sols m, AInv (garch m) ->
  AInv (garch (gm_update fuel graph sols m)) /\
  incl (objectives (garch m)) (objectives (garch (gm_update fuel graph sols m))) /\
  (forall g, evolves g (lookup g (covered (garch m))) (lookup g (covered (garch (gm_update fuel graph sols m))))).
Proof. exact gm_update_ok. Qed.
Print Assumptions C13_goals_manager_update.

(* ---- MIOPopulation ---- *)
Theorem C13_mio_population_history : forall ops p, PInv p -> Forall wf_pop_op ops ->
  PInv (prun p ops) /\ (is_covered p = true -> is_covered (prun p ops) = true).
Proof. exact prun_ok. Qed.
Print Assumptions C13_mio_population_history.

Theorem C13_mio_new_population : forall n, 1 <= n -> PInv {| capacity := n; psols := [] |}.
Proof. exact new_pop_inv. Qed.
Print Assumptions C13_mio_new_population.

Theorem C13_mio_covered_single_solution : forall p, is_covered p = true ->
  exists x, psols p = [x] /\ ph x = HMAX.
Proof. exact covered_single. Qed.
Print Assumptions C13_mio_covered_single_solution.

Theorem C13_mio_head_is_best : forall p x r, PInv p -> psols p = x :: r ->
  forall y, In y (psols p) -> ph y <= ph x.
Proof. exact head_is_best. Qed.
Print Assumptions C13_mio_head_is_best.

Theorem C13_mio_shrink_keeps_best : forall n p, 1 <= n ->
  hd_error (psols (shrink n p)) = hd_error (psols p).
Proof. exact shrink_keeps_best. Qed.
Print Assumptions C13_mio_shrink_keeps_best.

(* Replacement in a covered MIO population.  FULL statement of the property ("... or otherwise
   strictly shorter") is FALSE for MIOPopulation._is_better_than_current (size <=): refuted below,
   replayed on the implementation as known finding replacement:mio:equal-size.  What holds: *)
Theorem C13_mio_replacement_partial : forall h s p p', is_covered p = true -> 0 <= h <= HMAX ->
  add_solution h s p = (p', true) ->
  exists old, psols p = [old] /\ psols p' = [{| ph := HMAX; psol := s |}] /\ h = HMAX /\
    ((erroneous (psol old) = true /\ clean s = true) \/ ssize s <= ssize (psol old)).
Proof. exact mio_replacement. Qed.
Print Assumptions C13_mio_replacement_partial.

Theorem C13_mio_replacement_strict_refuted : exists p h s p' old,
  is_covered p = true /\ 0 <= h <= HMAX /\ add_solution h s p = (p', true) /\ psols p = [old] /\
  ~ ((erroneous (psol old) = true /\ clean s = true) \/ ssize s < ssize (psol old)).
Proof. exact mio_replacement_strict_refuted. Qed.
Print Assumptions C13_mio_replacement_strict_refuted.

(* ---- MIOArchive ---- *)
Theorem C13_mio_new_archive : forall targets n, 1 <= n -> MInv (new_march targets n).
Proof. exact new_march_inv. Qed.
Print Assumptions C13_mio_new_archive.

Theorem C13_mio_archive_history : forall ops a, MInv a -> Forall wf_mop ops ->
  MInv (mrun a ops) /\ (forall t, mcovered a t -> mcovered (mrun a ops) t) /\
  map fst (mpops (mrun a ops)) = map fst (mpops a).
Proof. exact mrun_ok. Qed.
Print Assumptions C13_mio_archive_history.

Theorem C13_mio_never_exceeds_capacity : forall a t p, MInv a -> In (t, p) (mpops a) ->
  len (psols p) <= capacity p.
Proof. exact mio_capacity. Qed.
Print Assumptions C13_mio_never_exceeds_capacity.

Theorem C13_mio_archived_test_covers_target : forall a t p, MInv a -> In (t, p) (mpops a) ->
  is_covered p = true -> exists x, psols p = [x] /\ fitness (psol x) t = 0.
Proof. exact mio_archived_covers. Qed.
Print Assumptions C13_mio_archived_test_covers_target.

(* covered (h = 1) exactly for fitness 0: a near miss with a tiny positive fitness is not covered *)
Theorem C13_mio_h_one_iff_fitness_zero : forall f, 0 <= f -> (hcode f = HMAX <-> f = 0).
Proof. exact hcode_one_iff_zero. Qed.
Print Assumptions C13_mio_h_one_iff_fitness_zero.
