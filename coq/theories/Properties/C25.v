(* C25 — Subtyping is a preorder consistent with the class hierarchy.
   Only statements, closed by [exact]; model in Models/C25.v, proofs in Proofs/C25.v.
   [g] is the inheritance graph (edges super -> sub, table of hard-coded generic parameter counts),
   [premises g] its decidable side conditions (closure certificate of the reachability tables,
   convexity of the hard-coded generics) which the check evaluates on every real graph. *)
From Coq Require Import List NArith Relations.
From Verif Require Import Models.C25 Proofs.C25.
Import ListNotations. Import C25.

(* --- preorder ------------------------------------------------------------------------------ *)
Theorem C25_subtype_refl : forall g t, is_subtype g t t = true.
Proof. exact subtype_refl. Qed.
Print Assumptions C25_subtype_refl.

(* Transitive through every middle type that does not contain Any. *)
Theorem C25_subtype_trans_anyfree : forall g l m r,
  graph_ok g = true -> hg_convexb g = true ->
  wf g l = true -> wf g m = true -> wf g r = true -> any_free m = true ->
  is_subtype g l m = true -> is_subtype g m r = true -> is_subtype g l r = true.
Proof. exact subtype_trans_anyfree. Qed.
Print Assumptions C25_subtype_trans_anyfree.

(* Full statement "forall l m r, l <: m -> m <: r -> l <: r" is FALSE of the code: Any is a subtype
   and a supertype of everything (PEP 484 consistency, visit_any_type -> True).  Known finding
   trans:via-any; witnesses str <: Any <: int and tuple[str] <: tuple[Any] <: tuple[int]. *)
Theorem C25_subtype_trans_refuted :
  exists g l m r, premises g = true /\ wf g l = true /\ wf g m = true /\ wf g r = true /\
    is_subtype g l m = true /\ is_subtype g m r = true /\ is_subtype g l r = false.
Proof. exact subtype_trans_refuted. Qed.
Print Assumptions C25_subtype_trans_refuted.

(* --- Any is the top, unions on the left ---------------------------------------------------- *)
Theorem C25_subtype_any_top : forall g t, is_subtype g t TAny = true.
Proof. exact subtype_any_top. Qed.
Print Assumptions C25_subtype_any_top.

Theorem C25_union_left_iff : forall g ts r,
  is_subtype g (TUnion ts) r = true <-> Forall (fun t => is_subtype g t r = true) ts.
Proof. exact union_left_iff. Qed.
Print Assumptions C25_union_left_iff.

(* --- class subsumption = reflexive-transitive closure of the edges (bases + numeric tower) --- *)
Theorem C25_subclass_is_reach : forall g c d,
  graph_ok g = true -> In d (nodes g) ->
  (subcls g c d = true <-> clos_refl_trans cls (fun x y => In (x, y) (edges g)) d c).
Proof. exact subclass_is_reach. Qed.
Print Assumptions C25_subclass_is_reach.

Theorem C25_subclass_refl : forall g c, subcls g c c = true.
Proof. exact subcls_refl. Qed.
Print Assumptions C25_subclass_refl.

Theorem C25_subclass_trans : forall g c d e,
  graph_ok g = true -> In e (nodes g) ->
  subcls g c d = true -> subcls g d e = true -> subcls g c e = true.
Proof. exact subcls_trans. Qed.
Print Assumptions C25_subclass_trans.

(* the shortest-path table only reports existing paths, and a class is at distance 0 of itself *)
Theorem C25_path_length_sound : forall g a b d, sp g a b = Some d -> subcls g b a = true.
Proof. exact path_length_sound. Qed.
Print Assumptions C25_path_length_sound.

(* --- is_subtype is stronger than is_maybe_subtype ----------------------------------------- *)
Theorem C25_maybe_weaker : forall g l r,
  wf g l = true -> wf g r = true -> is_subtype g l r = true -> is_maybe_subtype g l r = true.
Proof. exact maybe_weaker. Qed.
Print Assumptions C25_maybe_weaker.

(* --- subtype distance ------------------------------------------------------------------------
   Defined only when the subtype may be a subtype of the supertype.  Proved in full generality for
   the covariant reading of list/set/dict arguments, and for the real is_maybe_subtype whenever the
   requested type holds no list/set/dict instance. *)
Theorem C25_distance_defined_sound_cov : forall g anyd t s d,
  wf g t = true -> wf g s = true ->
  distance g anyd t s = Some d -> is_maybe_subtype_cov g s t = true.
Proof. exact distance_defined_sound_cov. Qed.
Print Assumptions C25_distance_defined_sound_cov.

Theorem C25_distance_defined_sound_partial : forall g anyd t s d,
  wf g t = true -> wf g s = true -> hg_free g t = true ->
  distance g anyd t s = Some d -> is_maybe_subtype g s t = true.
Proof. exact distance_defined_sound_partial. Qed.
Print Assumptions C25_distance_defined_sound_partial.

(* Full statement "distance t s = Some d -> is_maybe_subtype s t" is FALSE of the code:
   subtype_distance(list[object], list[int]) = 1 (the repository's own test-suite demands it) while
   is_maybe_subtype treats list/set/dict as invariant.  Known finding distance-sound:generic-invariance. *)
Theorem C25_distance_sound_refuted :
  exists g t s d, premises g = true /\ wf g t = true /\ wf g s = true /\
    distance g 30%N t s = Some d /\ is_maybe_subtype g s t = false.
Proof. exact distance_sound_refuted. Qed.
Print Assumptions C25_distance_sound_refuted.

(* Zero for identical types: for every type [refl_ok]: no Any and no None outside unions, and every
   union has an instance member that is itself [refl_ok] (e.g. list[tuple[int, str]] | None). *)
Theorem C25_distance_refl_zero : forall g anyd t,
  refl_ok t = true -> distance g anyd t t = Some 0%N.
Proof. exact distance_refl_zero. Qed.
Print Assumptions C25_distance_refl_zero.

(* Full statement "distance t t = Some 0" is FALSE of the code for None (undefined), Any and
   list[Any] (generator_any_distance) and unions of tuples (undefined).  Known findings
   distance-refl:(none|any|union-no-instance). *)
Theorem C25_distance_refl_refuted :
  distance g_ex 30%N TNone TNone = None /\ distance g_ex 30%N TAny TAny = Some 30%N /\
  distance g_ex 30%N (t_list TAny) (t_list TAny) = Some 30%N /\
  distance g_ex 30%N (TUnion [TTuple [t_int]; TTuple [t_str]]) (TUnion [TTuple [t_int]; TTuple [t_str]]) = None.
Proof. exact distance_refl_refuted. Qed.
Print Assumptions C25_distance_refl_refuted.

(* --- the set-valued queries (get_subclasses, get_superclasses, get_type_outside_of) are functions
   of is_subclass on the same graph; together with the purity of every query (the model's queries
   are Gallina functions of the graph: no sequence of queries can change a later answer; for the
   memoising implementation see C26_queries_leave_answers_unchanged) *)
Theorem C25_subclasses_spec : forall g u c d,
  In d (subclasses_in g u c) <-> In d u /\ subcls g d c = true.
Proof. exact subclasses_in_spec. Qed.
Print Assumptions C25_subclasses_spec.

Theorem C25_superclasses_spec : forall g u c d,
  In d (superclasses_in g u c) <-> In d u /\ subcls g c d = true.
Proof. exact superclasses_in_spec. Qed.
Print Assumptions C25_superclasses_spec.

Theorem C25_outside_spec : forall g u ks d,
  In d (outside_in g u ks) <-> In d u /\ forall k, In k ks -> subcls g d k = false.
Proof. exact outside_in_spec. Qed.
Print Assumptions C25_outside_spec.
