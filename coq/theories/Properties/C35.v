(* C35 — Coverage reports agree with the computed coverage.
   Only statements, closed by [exact]; model in Models/C35.v (get_report = get_coverage_report over the
   registry / trace / metric functions of Models/C10.v), proofs in Proofs/C35.v.

   Premises (all decidable, evaluated by the correspondence check on every report):
     valid t reg          the merged trace of the suite is a valid trace (C11: merge preserves it)
     registry_wf reg      ids in the registries are distinct (they are dictionary keys)
     in_source rr         every predicate line, code-object first line and registered line number
                          lies within 1..len(source)
     linenos_distinct rr  distinct line ids have distinct line numbers (one instrumented file) *)
From Coq Require Import List ZArith QArith Bool.
From Verif Require Import Models.C10 Models.C35 Proofs.C35.
Import ListNotations. Import C10 C35. Open Scope Z_scope.

(* totals = tracked branch coverage: numerator, denominator, and the reported rate is their ratio *)
Theorem C35_branch_totals_eq_metrics : forall rr t ml,
  valid t (to_registry rr) = true -> registry_wf (to_registry rr) = true ->
  let rp := get_report rr t true ml in
  fst (rp_branches rp) + fst (rp_branchless rp) = branch_covered_count t (to_registry rr) /\
  snd (rp_branches rp) + snd (rp_branchless rp) = branch_existing_count (to_registry rr) /\
  rp_branch_cov rp = Some (ratio (fst (rp_branches rp) + fst (rp_branchless rp))
                                 (snd (rp_branches rp) + snd (rp_branchless rp))).
Proof. exact branch_totals. Qed.
Print Assumptions C35_branch_totals_eq_metrics.

(* totals = tracked line coverage *)
Theorem C35_line_totals_eq_metrics : forall rr t mb,
  valid t (to_registry rr) = true -> registry_wf (to_registry rr) = true -> linenos_distinct rr = true ->
  let rp := get_report rr t mb true in
  rp_lines rp = (Z.of_nat (length (cov_lines t)), Z.of_nat (length (lines (to_registry rr)))) /\
  rp_line_cov rp = Some (ratio (fst (rp_lines rp)) (snd (rp_lines rp))).
Proof. exact line_totals. Qed.
Print Assumptions C35_line_totals_eq_metrics.

(* the per-line annotations sum to the totals, for every combination of metrics *)
Theorem C35_annotations_sum_to_totals : forall rr t mb ml,
  valid t (to_registry rr) = true -> in_source rr = true ->
  let rp := get_report rr t mb ml in
  esum (map a_branches (rp_annots rp)) = rp_branches rp /\
  esum (map a_branchless (rp_annots rp)) = rp_branchless rp /\
  esum (map a_lines (rp_annots rp)) = rp_lines rp /\
  esum (map a_total (rp_annots rp)) = eadd (eadd (rp_branchless rp) (rp_branches rp)) (rp_lines rp).
Proof. exact annotations_sum. Qed.
Print Assumptions C35_annotations_sum_to_totals.

(* a line is marked covered exactly when the suite covers it (some covered line id has that number) *)
Theorem C35_line_marked_iff_covered : forall rr t mb i,
  fst (a_lines (annot_of rr t mb true i)) = 1 <-> suite_covers rr t i.
Proof. exact line_marked_iff_covered. Qed.
Print Assumptions C35_line_marked_iff_covered.

(* what the renderers show: HTML tool tip "Line i covered"; Cobertura hits *)
Theorem C35_shown_covered_iff_covered : forall rr t mb i, valid t (to_registry rr) = true ->
  (html_line_msg (annot_of rr t mb true i) = 1 <-> suite_covers rr t i) /\
  (xml_hits (annot_of rr t false true i) = true <-> suite_covers rr t i) /\
  (suite_covers rr t i -> xml_hits (annot_of rr t mb true i) = true).
Proof. exact shown_covered_iff. Qed.
Print Assumptions C35_shown_covered_iff_covered.

(* the premise of the annotation theorem cannot be dropped *)
Theorem C35_in_source_needed : exists rr t,
  let rp := get_report rr t true true in
  in_source rr = false /\ rp_branches rp = (0, 2) /\ esum (map a_branches (rp_annots rp)) = (0, 0).
Proof. exact (ex_intro _ ex_rr_out (ex_intro _ empty_trace in_source_needed)). Qed.
Print Assumptions C35_in_source_needed.
