(* C28 — Mutation analysis yields genuine mutants and leaves the original intact.
   Only statements, closed by [exact]; see Models/C28.v (model) and Proofs/C28.v (proofs).
   The model is of the code AFTER fixes/C28-restore-ast-on-early-close.diff (try/finally around the
   yields) and fixes/C28-hom-mutant-count.diff.  What the individual visitors of the 28 operators
   return for a node is data of the model ([operator], [site]); that they never modify the original
   nodes is sampled on every run (ast.dump before/after), not proved. *)
From Coq Require Import List ZArith Permutation Sorted.
From Verif Require Import Models.C28 Proofs.C28.
Import ListNotations. Import C28.

(* --- a mutant is the original with exactly one subtree replaced: the site holds the replacement,
   everything beside the site is untouched, every node above it keeps label and arity *)
Theorem C28_mutant_site_replaced : forall p t r, get t p <> None -> get (write t p r) p = Some r.
Proof. exact get_write_same. Qed.
Print Assumptions C28_mutant_site_replaced.

Theorem C28_mutant_differs_only_at_site : forall p p' t r,
  divergeb p p' = true -> get (write t p r) p' = get t p'.
Proof. exact get_write_diverge. Qed.
Print Assumptions C28_mutant_differs_only_at_site.

Theorem C28_mutant_keeps_ancestors : forall pre t p r c, get t pre = Some c ->
  exists c', get (write t (pre ++ p) r) pre = Some c' /\
             (p <> [] -> label c' = label c /\ length (kids c') = length (kids c)).
Proof. exact write_above. Qed.
Print Assumptions C28_mutant_keeps_ancestors.

(* --- the imperative generator (mutate in place, yield, restore on resume) run to exhaustion yields
   exactly the functional enumeration — each yielded tree is ONE substitution into the ORIGINAL — and
   leaves the tree as it was; for every operator and every tree *)
Theorem C28_exhaustion_yields_mutants_and_restores : forall op t,
  drain (S (length (muts op t))) t (Fresh (muts op t)) = (mutants op t, t, Finished).
Proof. exact drain_operator. Qed.
Print Assumptions C28_exhaustion_yields_mutants_and_restores.

(* for any list of sites, e.g. the single regenerated mutation of the sampled/reordered path *)
Theorem C28_exhaustion_any_sites : forall t sites,
  drain (S (length sites)) t (Fresh sites) = (map (apply_site t) sites, t, Finished).
Proof. exact drain_fresh. Qed.
Print Assumptions C28_exhaustion_any_sites.

(* --- invariant of the protocol at every step: between yields the tree is the original, at a yield
   it is one substitution into the original *)
Theorem C28_protocol_invariant : forall t s g,
  consistent t s g ->
  let '(s', g', y) := next s g in
  consistent t s' g' /\
  match y with
  | Some m => m = s' /\ exists p r, m = write t p r /\
              (match g with Fresh todo | Susp _ _ todo => hd_error todo = Some (p, r) | Finished => False end)
  | None => s' = t
  end.
Proof. exact next_consistent. Qed.
Print Assumptions C28_protocol_invariant.

(* --- an enumeration abandoned at any point (generator closed) restores the original ... *)
Theorem C28_close_restores : forall t s g, consistent t s g -> fst (close true s g) = t.
Proof. exact close_fixed_restores. Qed.
Print Assumptions C28_close_restores.

(* ... which was false of the code before the fix (no try/finally): the mutant stayed in the tree *)
Theorem C28_close_without_finally_refuted :
  exists t sites, let '(s, g, _) := next t (Fresh sites) in fst (close false s g) <> t.
Proof. exact close_midway_leaves_mutated. Qed.
Print Assumptions C28_close_without_finally_refuted.

(* --- higher-order mutants: in-place mutations applied one after the other and undone in reverse
   order restore the original, whatever the sites *)
Theorem C28_hom_restores : forall sites t,
  hom_undo (fst (hom_apply t sites [])) (snd (hom_apply t sites [])) = t.
Proof. exact hom_restores. Qed.
Print Assumptions C28_hom_restores.

Theorem C28_hom_is_composition : forall sites s log,
  fst (hom_apply s sites log) = fold_left apply_site sites s.
Proof. exact hom_apply_fold. Qed.
Print Assumptions C28_hom_is_composition.

(* --- reordering: round robin is a permutation; the reordered enumeration is a permutation of the full
   one; a sampled and reordered enumeration is, up to order, a sub-multiset of the full one *)
Theorem C28_round_robin_perm : forall (ls : list (list Z)), Permutation (round_robin ls) (concat ls).
Proof. exact (@round_robin_perm Z). Qed.
Print Assumptions C28_round_robin_perm.

Theorem C28_reordered_is_permutation : forall (ls : list (bool * list Z)),
  Permutation (select_model ls) (concat (map snd ls)).
Proof. exact (@select_reorder_perm Z). Qed.
Print Assumptions C28_reordered_is_permutation.

Theorem C28_sampled_sub_multiset : forall (ls' ls : list (bool * list Z)),
  Forall2 sampled_from ls' ls ->
  exists m full, Permutation (select_model ls') m /\ sublist m full /\ Permutation full (concat (map snd ls)).
Proof. exact (@select_sub_multiset Z). Qed.
Print Assumptions C28_sampled_sub_multiset.

Theorem C28_sampled_members : forall (ls' ls : list (bool * list Z)) x,
  Forall2 sampled_from ls' ls -> In x (select_model ls') -> In x (concat (map snd ls)).
Proof. exact (@select_members Z). Qed.
Print Assumptions C28_sampled_members.

(* the per-operator sample taken at sorted distinct indices is a sublist *)
Theorem C28_sample_is_sublist : forall (l : list Z) idxs, StronglySorted lt idxs -> sublist (pick l idxs) l.
Proof. exact (@pick_sublist Z). Qed.
Print Assumptions C28_sample_is_sublist.

(* --- the reported count is the length of the full enumeration, whatever is sampled *)
Theorem C28_count_is_full_enumeration : forall ops t,
  mutation_count ops t = length (concat (map (fun op => mutants op t) ops)).
Proof. exact mutation_count_is_length. Qed.
Print Assumptions C28_count_is_full_enumeration.

Theorem C28_sampled_count_le : forall (ls' ls : list (bool * list Z)),
  Forall2 sampled_from ls' ls -> length (select_model ls') <= length (concat (map snd ls)).
Proof. exact (@select_count_le Z). Qed.
Print Assumptions C28_sampled_count_le.
