(* C27 — The test cluster holds exactly the module's eligible callables.
   Only statements, closed by [exact]; model in Models/C27.v, proofs in Proofs/C27.v.
   Names are arbitrary strings (lists of character codes): all theorems are unbounded. *)
From Coq Require Import List NArith Bool.
From Verif Require Import Models.C27 Proofs.C27.
Import ListNotations. Import C27. Open Scope N_scope.

(* public / dunder / private / mangled / protected are exhaustive and mutually exclusive on all strings *)
Theorem C27_name_classes_partition : forall n, length (filter (fun b => b) (classes n)) = 1%nat.
Proof. exact name_classes_partition. Qed.
Print Assumptions C27_name_classes_partition.

(* for the module under test: skipped by visibility <-> the name is not eligible *)
Theorem C27_skip_spec : forall n v, should_skip n true v = negb (eligible_name v n).
Proof. exact skip_spec. Qed.
Print Assumptions C27_skip_spec.

(* dependency modules: non-public names are always skipped, whatever the setting *)
Theorem C27_skip_dependency : forall n v, should_skip n false v = is_private n || is_protected n.
Proof. exact skip_dependency. Qed.
Print Assumptions C27_skip_dependency.

Theorem C27_is_protected_split : forall n, is_protected n = c_protected n || c_mangled n.
Proof. exact is_protected_split. Qed.
Print Assumptions C27_is_protected_split.

(* ALL admits at least what PROTECTED admits, PROTECTED at least what PUBLIC admits *)
Theorem C27_visibility_monotone : forall n,
  (should_skip n true ALL = true -> should_skip n true PROTECTED = true) /\
  (should_skip n true PROTECTED = true -> should_skip n true PUBLIC = true).
Proof. exact skip_monotone. Qed.
Print Assumptions C27_visibility_monotone.

(* the cluster is the filter; nothing defined in another module is under test *)
Theorem C27_analyse_exact : forall v ms m, In m (analyse v ms) <-> In m ms /\ under_test v m = true.
Proof. exact analyse_exact. Qed.
Print Assumptions C27_analyse_exact.

Theorem C27_nothing_foreign : forall v ms m, In m (analyse v ms) -> m_own m = true.
Proof. exact nothing_foreign. Qed.
Print Assumptions C27_nothing_foreign.

(* a class defined in the module under test is not a builtin type (also when it derives from list,
   dict, float, str, tuple ...): only abstractness withholds its constructor *)
Theorem C27_ctor_withheld_own : forall a, ctor_withheld a false false = a.
Proof. exact ctor_withheld_own. Qed.
Print Assumptions C27_ctor_withheld_own.

(* Full statement wanted:  forall v m, m_reached m = true -> m_async m = false ->
     under_test v m = eligible_member v m.
   It is FALSE for the code as it is (C27_under_test_exact_refuted): class names are never checked
   (constructor of `_Hidden` under PUBLIC) and functions whose qualified name starts with "main" or
   "test" are dropped by a hard-coded rule.  Outside these two classes it holds: *)
Theorem C27_under_test_exact_partial : forall v m,
  m_reached m = true -> m_async m = false -> m_main_test m = false ->
  (is_constructor m = true -> eligible_name v (m_name m) = true /\ m_listed m = false) ->
  under_test v m = eligible_member v m.
Proof. exact under_test_exact_partial. Qed.
Print Assumptions C27_under_test_exact_partial.

Theorem C27_under_test_exact_refuted :
  (under_test PUBLIC hidden_ctor = true /\ eligible_member PUBLIC hidden_ctor = false) /\
  (under_test PUBLIC mainloop_fn = false /\ eligible_member PUBLIC mainloop_fn = true).
Proof. exact under_test_exact_refuted. Qed.
Print Assumptions C27_under_test_exact_refuted.
