(* C33 — Worker crashes never hang Pynguin and restarts are bounded.
   Only statements, closed by [exact]; model in Models/C33.v, proofs in Proofs/C33.v.

   The adversary is the list of worker outcomes [l] (k-th worker: delivered a result, or died after
   n/d seconds); [wf_outcome] only demands that a crashed worker had been running for a positive time
   (time.time() advanced).  All statements hold for every such list and every master state.

   Outside the model (sampled by the crash-injection runs only): that the death of a worker makes
   recv() fail (pipe EOF delivery by the OS), process creation, the worker's own pipeline. *)
From Coq Require Import List ZArith Bool.
From Verif Require Import Models.C33 Proofs.C33.
Import ListNotations. Import C33. Open Scope Z_scope.

(* Each crash strictly reduces the remaining search time (by at least one second, because of int()),
   never below zero. *)
Theorem C33_restart_decreases : forall c n d,
  0 < c -> 0 < n -> 0 < d -> 0 <= adjust c n d <= c - 1.
Proof. exact adjust_decreases. Qed.
Print Assumptions C33_restart_decreases.

(* A worker is restarted only if search time remained before and remains after the adjustment;
   the new budget is strictly smaller and the restart counter grows by one. *)
Theorem C33_restart_only_with_time : forall s n d s' ev,
  0 < n -> 0 < d -> restart s n d = (true, s', ev) ->
  0 < remaining s' /\ remaining s' <= remaining s - 1 /\ restarts s' = restarts s + 1
  /\ umw s' = umw s
  /\ ev = [EAdjust (remaining s'); ERestart (restarts s') (subproc s')].
Proof. exact restart_true. Qed.
Print Assumptions C33_restart_only_with_time.

Theorem C33_restart_needs_time : forall s n d s' ev,
  restart s n d = (true, s', ev) -> 0 < remaining s /\ 0 < remaining s'.
Proof. exact restart_needs_time. Qed.
Print Assumptions C33_restart_needs_time.

(* For every crash sequence: the whole event trace of get_result alternates "adjust to c' with
   0 < c' <= c - 1, restart number k+1" and ends, if at all, with "adjust to c' <= 0, abort". *)
Theorem C33_trace_shape : forall l s, Forall wf_outcome l ->
  good_trace (remaining s) (restarts s) (events (run l s)).
Proof. exact trace_good. Qed.
Print Assumptions C33_trace_shape.

Theorem C33_trace_restart_has_time : forall c k ev, good_trace c k ev ->
  forall pre c' k' sub post, ev = pre ++ EAdjust c' :: ERestart k' sub :: post -> 0 < c' /\ c' < c.
Proof. exact good_trace_restart. Qed.
Print Assumptions C33_trace_restart_has_time.

Theorem C33_trace_restart_follows_adjust : forall c k ev, good_trace c k ev ->
  forall pre k' sub post, ev = pre ++ ERestart k' sub :: post ->
  exists pre' c', pre = pre' ++ [EAdjust c'] /\ 0 < c'.
Proof. exact good_trace_no_restart_without_adjust. Qed.
Print Assumptions C33_trace_restart_follows_adjust.

(* Restarts are bounded by the initial search time, for every crash sequence. *)
Theorem C33_restarts_bounded : forall l s, Forall wf_outcome l ->
  0 <= restarts (final (run l s)) - restarts s <= Z.max 0 (remaining s).
Proof. exact restarts_bounded. Qed.
Print Assumptions C33_restarts_bounded.

(* get_result never waits for more workers than the budget allows: any crash sequence longer than the
   remaining search time makes it return; it consumes at most budget + 1 outcomes, and what
   happens after it returned is irrelevant (no worker is started any more). *)
Theorem C33_get_result_returns : forall l s, Forall wf_outcome l ->
  Z.max 0 (remaining s) < Z.of_nat (length l) -> exists r, result (run l s) = Returned r.
Proof. exact terminates. Qed.
Print Assumptions C33_get_result_returns.

Theorem C33_consumed_bound : forall l s, Forall wf_outcome l ->
  Z.of_nat (consumed l s) <= Z.max 0 (remaining s) + 1.
Proof. exact consumed_bound. Qed.
Print Assumptions C33_consumed_bound.

Theorem C33_returned_is_final : forall l s l' r,
  result (run l s) = Returned r -> run (l ++ l') s = run l s.
Proof. exact run_stable. Qed.
Print Assumptions C33_returned_is_final.

Theorem C33_waiting_means_all_died : forall l s, Forall wf_outcome l -> result (run l s) = Waiting ->
  Z.of_nat (length l) = restarts (final (run l s)) - restarts s
  /\ (l <> [] -> 0 < remaining (final (run l s))).
Proof. exact run_waiting. Qed.
Print Assumptions C33_waiting_means_all_died.

(* Success (ReturnCode.OK) is reported by the client only if some worker delivered a result carrying
   ReturnCode.OK, all earlier workers having died; more generally every code other than
   NO_TESTS_GENERATED was delivered by a worker.  An ERROR result arises only from an abort with no
   search time left. *)
Theorem C33_success_only_if_delivered : forall l s r,
  result (run l s) = Returned r -> client_rc r = rc_ok ->
  exists pre post, l = pre ++ Deliver (Some rc_ok) :: post /\ Forall is_die pre
    /\ wcount r = restarts s + Z.of_nat (length pre).
Proof. exact success_needs_delivery. Qed.
Print Assumptions C33_success_only_if_delivered.

Theorem C33_code_was_delivered : forall l s r,
  result (run l s) = Returned r -> client_rc r <> rc_no_tests ->
  exists pre post, l = pre ++ Deliver (Some (client_rc r)) :: post /\ Forall is_die pre.
Proof. exact client_rc_delivered. Qed.
Print Assumptions C33_code_was_delivered.

Theorem C33_result_shape : forall l s r, result (run l s) = Returned r ->
  (wok r = true /\ exists pre post, l = pre ++ Deliver (wrc r) :: post /\ Forall is_die pre
     /\ wcount r = restarts s + Z.of_nat (length pre) /\ wcount r = restarts (final (run l s)))
  \/ (wok r = false /\ wrc r = None /\ exists pre n d post, l = pre ++ Die n d :: post
     /\ Forall is_die pre /\ remaining (final (run l s)) <= 0
     /\ wcount r = restarts s + Z.of_nat (length pre)).
Proof. exact returned_shape. Qed.
Print Assumptions C33_result_shape.

(* Iteration budgets only (search time <= 0): the first crash ends the run, zero restarts. *)
Theorem C33_no_time_no_restart : forall l s n d, remaining s <= 0 ->
  run (Die n d :: l) s
  = ([EAdjust (remaining s); EAbort],
     Returned {| wok := false; wrc := None; wcount := restarts s |}, s).
Proof. exact no_time_no_restart. Qed.
Print Assumptions C33_no_time_no_restart.

(* After the first restart the task is in subprocess mode. *)
Theorem C33_subprocess_after_restart : forall l s, 0 <= restarts s ->
  umw s = true -> (forced s = true -> subproc s = true) ->
  restarts s < restarts (final (run l s)) -> subproc (final (run l s)) = true.
Proof. exact forced_after_restart. Qed.
Print Assumptions C33_subprocess_after_restart.
