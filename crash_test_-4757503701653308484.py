var_0 = fine(5)
var_1 = big_error(2000000)
