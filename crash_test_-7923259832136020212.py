var_0 = big_value(1500000)
var_1 = fine(1)
