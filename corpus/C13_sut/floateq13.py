"""Float-equality branches: near misses have a tiny, non-zero branch distance (deterministic)."""


def check(x: float) -> int:
    if x == 0.1 + 0.2:
        return 1
    return 0


def scaled(x: float, y: float) -> int:
    if x * 3.0 == y:
        return 2
    if x > y:
        return 1
    return 0
