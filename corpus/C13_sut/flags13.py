"""Boolean-guarded functions; seeded tests call one of them twice with the same variable (deterministic)."""


def flag_a(flag: bool) -> int:
    if flag:
        return 1
    return 2


def flag_b(flag: bool) -> int:
    if flag:
        return 3
    return 4


def flag_c(flag: bool) -> int:
    if flag:
        return 5
    return 6


def flag_d(flag: bool) -> int:
    if flag:
        return 7
    return 8


def flag_e(flag: bool) -> int:
    if flag:
        return 9
    return 10


def flag_f(flag: bool) -> int:
    if flag:
        return 11
    return 12
