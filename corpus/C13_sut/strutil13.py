"""String helpers."""


def initials(name: str) -> str:
    parts = [p for p in name.split(" ") if p]
    if not parts:
        return ""
    return "".join(p[0].upper() for p in parts)


def is_palindrome(s: str) -> bool:
    t = [c.lower() for c in s if c.isalnum()]
    i, j = 0, len(t) - 1
    while i < j:
        if t[i] != t[j]:
            return False
        i += 1
        j -= 1
    return True


def kind(s: str) -> str:
    if s.startswith("#"):
        return "comment"
    if s.endswith(":"):
        return "header"
    if "=" in s:
        return "assignment"
    if s == "":
        return "empty"
    return "other"


def ratio(a: float, b: float) -> float:
    if b == 0.0:
        return 0.0
    return a / b
