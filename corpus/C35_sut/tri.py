"""Triangle classification and a few numeric helpers (deterministic)."""


def classify(a: int, b: int, c: int) -> str:
    if a <= 0 or b <= 0 or c <= 0:
        return "invalid"
    if a + b <= c or a + c <= b or b + c <= a:
        return "none"
    if a == b and b == c:
        return "equilateral"
    if a == b or b == c or a == c:
        return "isosceles"
    return "scalene"


def clamp(x: int, lo: int, hi: int) -> int:
    if lo > hi:
        lo, hi = hi, lo
    if x < lo:
        return lo
    if x > hi:
        return hi
    return x


def count_even(values: list[int]) -> int:
    n = 0
    for v in values:
        if v % 2 == 0:
            n += 1
    return n


def constant() -> int:
    return 42
