"""Small deterministic functions with independent branches (one function per test case is typical)."""


def alpha(x: int) -> int:
    return x + 1


def beta(y: int) -> str:
    if y < 0:
        return "negative"
    return "non-negative"


def gamma(z: list[int]) -> list[int]:
    result = []
    for item in z:
        result.append(item * 2)
    return result


def delta(a: int, b: int) -> int:
    if a > b:
        return a - b
    if a == b:
        return 0
    return b - a


def epsilon(s: str) -> int:
    count = 0
    for ch in s:
        if ch == "a":
            count += 1
    return count
