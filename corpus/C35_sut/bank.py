"""A small class with state."""


class Account:
    def __init__(self, owner: str, balance: int = 0) -> None:
        self.owner = owner
        self.balance = balance
        self.history: list[int] = []

    def deposit(self, amount: int) -> int:
        if amount <= 0:
            raise ValueError("amount must be positive")
        self.balance += amount
        self.history.append(amount)
        return self.balance

    def withdraw(self, amount: int) -> int:
        if amount <= 0:
            raise ValueError("amount must be positive")
        if amount > self.balance:
            raise RuntimeError("insufficient funds")
        self.balance -= amount
        self.history.append(-amount)
        return self.balance

    def is_rich(self) -> bool:
        return self.balance > 1000

    def last(self) -> int | None:
        if not self.history:
            return None
        return self.history[-1]


def transfer(src: Account, dst: Account, amount: int) -> bool:
    try:
        src.withdraw(amount)
    except (ValueError, RuntimeError):
        return False
    dst.deposit(amount)
    return True
