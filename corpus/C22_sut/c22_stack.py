"""A bounded stack; push/pop change which branches later calls take."""


class Stack:
    def __init__(self):
        self.items = []

    def push(self, x: int):
        if len(self.items) >= 3:
            return False
        self.items.append(x)
        return True

    def pop(self):
        if not self.items:
            return None
        return self.items.pop()

    def size(self) -> int:
        return len(self.items)

    def top_is_positive(self) -> bool:
        if not self.items:
            return False
        if self.items[-1] > 0:
            return True
        return False
