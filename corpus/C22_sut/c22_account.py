"""A class with public fields the assertion generator observes."""


class Account:
    def __init__(self, owner: str):
        self.owner = owner
        self.balance = 0
        self.closed = False

    def deposit(self, amount: int) -> bool:
        if self.closed:
            return False
        if amount <= 0:
            return False
        self.balance += amount
        return True

    def withdraw(self, amount: int) -> bool:
        if amount > self.balance:
            return False
        self.balance -= amount
        return True

    def close(self):
        self.closed = True

    def is_rich(self) -> bool:
        if self.balance > 100:
            return True
        return False
