"""Pure functions with a few branches."""


def classify(x: int, y: int) -> str:
    if x > y:
        return "gt"
    if x == y:
        return "eq"
    return "lt"


def clamp(x: int, lo: int, hi: int) -> int:
    if lo > hi:
        lo, hi = hi, lo
    if x < lo:
        return lo
    if x > hi:
        return hi
    return x


def first_word(s: str) -> str:
    if not s:
        return ""
    parts = s.split(" ")
    if len(parts) > 1:
        return parts[0]
    return s
