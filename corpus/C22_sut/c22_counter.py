"""Stateful class: the branch taken by is_big depends on how often inc ran before."""


class Counter:
    def __init__(self):
        self.n = 0

    def inc(self):
        self.n += 1

    def is_big(self):
        if self.n >= 2:
            return "big"
        return "small"


def sign(x: int) -> int:
    if x < 0:
        return -1
    if x == 0:
        return 0
    return 1
