"""A module with a practically unreachable branch: most offspring bring no improvement."""


def lock(code: int) -> int:
    if code == 918273645:
        return 1
    return 0


def gate(a: int, b: int) -> str:
    if a == 77001 and b == -4242:
        return "open"
    if a < 0:
        return "negative"
    return "closed"
