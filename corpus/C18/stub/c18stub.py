"""Stub module under test for the writer correspondence of C18/C24 (deterministic)."""
import decimal
import enum
import json
import sys
from random import random  # noqa: F401  a public name that shadows a module the test file imports itself


class StubError(Exception):
    pass


class _HiddenError(Exception):
    pass


class StubAbort(BaseException):
    """Not an Exception: only `except BaseException` sees it."""


class Color(enum.Enum):
    RED = 1
    GREEN = 2


LIMIT = 3


class _Shade(enum.Enum):
    X = 1


class Box:
    class Mode(enum.Enum):
        A = 1
        B = 2

    class Full(Exception):
        """An exception class nested in a class: importable only through its owner."""

    def __init__(self, v=0):
        self.v = v
        self.items = []
        self.color = Color.RED
        self.ratio = 0.5
        self.mode = Box.Mode.A

    def put(self, x):
        self.items.append(x)
        return len(self.items)

    def fail(self):
        raise StubError("box")


def ok(*a, **k):
    return 7


def fl(*a):
    return 1.5


def text(*a):
    return "abc"


def lst(*a):
    return [1, 2]


def testify(x):
    """pytest's default rule is the bare prefix `test`: collected if imported by name."""
    return x


def tests_needed(n=0):
    return n


class Tester:
    """Class prefix `Test` without separator: collected by pytest as well."""

    def test_it(self, z):
        return z


def test_probe(x):
    """Looks like a test to pytest; must not be imported by name into the test file."""
    return x


class TestHelper:
    """Looks like a test class to pytest."""

    def test_method(self, y):
        return y


def label(value=0, text="t"):
    # `text` is also a public function of this module: keyword names are not references
    return "abc"


def shade(*a):
    return Color.GREEN


def hidden_shade(*a):
    return _Shade.X


def boom(kind, *a):
    if kind == "ValueError":
        raise ValueError("v")
    if kind == "KeyError":
        raise KeyError("k")
    if kind == "ZeroDivisionError":
        return 1 // 0
    if kind == "StubError":
        raise StubError("s")
    if kind == "_HiddenError":
        raise _HiddenError("h")
    if kind == "InvalidOperation":
        raise decimal.InvalidOperation("d")
    if kind == "JSONDecodeError":
        raise json.JSONDecodeError("m", "doc", 0)
    if kind == "BoxFull":
        raise Box.Full("f")
    if kind == "SystemExit":
        sys.exit(2)
    if kind == "KeyboardInterrupt":
        raise KeyboardInterrupt
    if kind == "GeneratorExit":
        raise GeneratorExit
    if kind == "StubAbort":
        raise StubAbort("a")
    raise RuntimeError(kind)
