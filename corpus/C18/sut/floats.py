"""Float returning code."""
import math


def half(x: float) -> float:
    return x / 2.0


def hyp(a: float, b: float) -> float:
    return math.sqrt(a * a + b * b)


def inv(x: float) -> float:
    if x == 0:
        return math.inf
    return 1.0 / x


def neg_zero(x: int) -> float:
    return -0.0 if x > 3 else 0.25


def as_complex(x: float) -> complex:
    return complex(x, 1.0)


class Acc:
    def __init__(self, start: float = 0.0):
        self.total = start

    def add(self, x: float) -> float:
        self.total += x
        return self.total


def ratio(a: float, b: float) -> float:
    if b == 0:
        return float("nan")
    return a / b
