"""Public names that look like tests to pytest."""


def test_threshold(x: int) -> bool:
    return x > 3


class TestBench:
    def __init__(self, n: int = 1):
        self.n = n

    def run(self) -> int:
        return self.n * 2


def double(x: int) -> int:
    return x * 2


def testify(x: int) -> int:
    return x + 1


def tests_needed(n: int) -> bool:
    return n > 0


class Testbed:
    def measure(self, x: int) -> int:
        return x * 3

    def test_run(self, k):
        return k
