"""Exports a public name `random` that is not the module, and uses the random module deterministically."""
import random as rnd
from random import random  # noqa: F401


def pick(n: int) -> int:
    return rnd.Random(n % 7).randint(0, 9)


def spread(n: int) -> list:
    xs = list(range(n % 5))
    rnd.Random(3).shuffle(xs)
    return xs
