"""Deterministic use of random with caller-supplied seeds of several types."""
import random


def draw(key: tuple) -> int:
    return random.Random(key).randint(0, 1000)


def draw_list(key: list) -> int:
    return random.Random(key).randint(0, 1000)


def draw_any(key) -> int:
    rng = random.Random()
    rng.seed(key)
    return rng.randint(0, 1000)


def draw_int(key: int) -> int:
    return random.Random(key).randint(0, 1000)


def draw_complex(key: complex) -> float:
    return random.Random(key).random()
