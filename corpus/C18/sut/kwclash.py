"""Parameter names that are also public names of the module."""

limit = 10


def factor(n: int) -> int:
    return n % 7


def scale(value: int, factor: int) -> int:
    return value * factor


def clip(value: int, limit: int = 5) -> int:
    return min(value, limit)
