"""Module-defined and foreign exception classes."""
import decimal


class ParseError(Exception):
    pass


def parse(s: str) -> int:
    """Parse a number.

    :raises ParseError: if s is not a number
    """
    if not s.isdigit():
        raise ParseError(s)
    return int(s)


def check(x: int) -> int:
    if x < 0:
        raise ParseError("negative")
    return x


def dec(s: str) -> str:
    return str(decimal.Decimal(s))
