"""Functions returning containers."""


def firsts(n: int) -> list:
    return list(range(n % 6))


def pairs(n: int) -> dict:
    return {i: str(i) for i in range(n % 4)}


def uniq(xs: list) -> set:
    return set(xs)


def span(a: int, b: int) -> tuple:
    return (min(a, b), max(a, b))


def nested(n: int) -> list:
    return [[i, (i, str(i))] for i in range(n % 3)]


def head(xs: list):
    return xs[0]
