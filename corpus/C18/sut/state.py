"""A class with instance and class-level state."""


class Counter:
    created = 0

    def __init__(self, start: int = 0):
        self.value = start
        self.history = []
        Counter.created += 1

    def inc(self, by: int = 1) -> int:
        if by < 0:
            raise ValueError("negative step")
        self.value += by
        self.history.append(by)
        return self.value

    def reset(self) -> None:
        self.value = 0
        self.history = []

    def mean(self) -> float:
        return sum(self.history) / len(self.history)


class Stack:
    def __init__(self):
        self._items = []

    def push(self, x: int) -> None:
        self._items.append(x)

    def pop(self) -> int:
        """Pop the top.

        :raises IndexError: when empty
        """
        return self._items.pop()

    def __len__(self) -> int:
        return len(self._items)
