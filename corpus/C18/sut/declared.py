"""Declares __all__ and leaves a public enum out of it."""
import enum

__all__ = ["classify", "describe"]


class Level(enum.Enum):
    LOW = 1
    HIGH = 2


def classify(x: int) -> Level:
    return Level.HIGH if x > 10 else Level.LOW


def describe(level: Level) -> str:
    return level.name.lower()
