"""Enum returning code."""
import enum


class Color(enum.Enum):
    RED = 1
    GREEN = 2
    BLUE = 3


class Level(enum.IntEnum):
    LOW = 1
    HIGH = 2


def pick(n: int) -> Color:
    return [Color.RED, Color.GREEN, Color.BLUE][n % 3]


def level(n: int) -> Level:
    return Level.HIGH if n > 5 else Level.LOW


def name_of(c: Color) -> str:
    return c.name.lower()


class Light:
    def __init__(self):
        self.color = Color.RED

    def next(self) -> Color:
        self.color = pick(self.color.value)
        return self.color


class Machine:
    class Mode(enum.Enum):
        IDLE = 0
        BUSY = 1

    def __init__(self):
        self.mode = Machine.Mode.IDLE

    def start(self) -> "Machine.Mode":
        self.mode = Machine.Mode.BUSY
        return self.mode


class _Secret(enum.Enum):
    X = 1


def secret(n: int) -> _Secret:
    return _Secret.X
