"""Objects with several NaN-valued public fields next to ordinary ones."""
import math


class Summary:
    def __init__(self, mean: float, spread: float, count: int):
        self.mean = mean
        self.spread = spread
        self.count = count


def summarize(xs: list) -> Summary:
    nums = [x for x in xs if isinstance(x, (int, float)) and not isinstance(x, bool)]
    if not nums:
        return Summary(math.nan, math.nan, 0)
    mean = sum(nums) / len(nums)
    return Summary(mean, max(nums) - min(nums), len(nums))


def blank() -> Summary:
    return Summary(math.nan, math.nan, 0)


class Gauge:
    def __init__(self):
        self.low = math.nan
        self.high = math.nan
        self.last = math.nan
        self.unit = "mm"
        self.samples = 0

    def feed(self, x: float) -> int:
        self.last = x
        self.samples += 1
        return self.samples
