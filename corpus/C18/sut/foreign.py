"""Returns enum members and exceptions of other modules."""
import uuid
from http import HTTPStatus


def safety(n: int) -> uuid.SafeUUID:
    return uuid.SafeUUID.safe if n > 0 else uuid.SafeUUID.unknown


def status(n: int) -> HTTPStatus:
    return HTTPStatus.OK if n % 2 else HTTPStatus.NOT_FOUND


def statuses(n: int) -> list:
    return [uuid.SafeUUID.unsafe] * (n % 3)
