"""A module inside a package."""


class Rect:
    def __init__(self, w: int, h: int):
        self.w = w
        self.h = h

    def area(self) -> int:
        return self.w * self.h

    def scale(self, k: float) -> float:
        return self.area() * k


def square(n: int) -> Rect:
    return Rect(n, n)
