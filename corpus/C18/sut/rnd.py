"""Uses the random module, deterministically."""
import random


def shuffled(n: int) -> list:
    xs = list(range(n % 6))
    random.Random(7).shuffle(xs)
    return xs


def pick(n: int) -> int:
    return random.Random(n % 5).randint(0, 100)
