"""Exception class nested in another class."""


class Parser:
    class Error(Exception):
        pass

    def parse(self, s: str) -> int:
        """Parse.

        :raises Error: if not a digit string
        """
        if not s.isdigit():
            raise Parser.Error(s)
        return int(s)


def strict(s: str) -> int:
    return Parser().parse(s)
