"""Paths that end in BaseExceptions which are not Exceptions."""
import sys


class Abort(BaseException):
    pass


def check_level(level: int) -> int:
    if level < 0:
        sys.exit(2)
    return level * 2


def guard(x: int) -> int:
    if x > 100:
        raise Abort("too large")
    if x == 0:
        raise GeneratorExit
    return x + 1


def quit_on(text: str) -> str:
    """Echo.

    :raises SystemExit: when asked to quit
    """
    if text.startswith("q"):
        raise SystemExit(text)
    return text
