"""Integer arithmetic with branches and a declared exception."""


def clamp(x: int, lo: int, hi: int) -> int:
    if lo > hi:
        raise ValueError("empty range")
    if x < lo:
        return lo
    if x > hi:
        return hi
    return x


def safe_div(a: int, b: int) -> int:
    """Integer division.

    :raises ZeroDivisionError: if b is zero
    """
    return a // b


def sign(x: int) -> int:
    if x > 0:
        return 1
    if x < 0:
        return -1
    return 0


def is_even(x: int) -> bool:
    return x % 2 == 0


def maybe(x: int):
    if x > 10:
        return None
    return x * 2
