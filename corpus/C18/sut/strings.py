"""String functions."""


def shout(s: str) -> str:
    return s.upper() + "!"


def initials(name: str) -> str:
    parts = name.split()
    if not parts:
        raise ValueError("no name")
    return "".join(p[0] for p in parts)


def pad(s: str, n: int) -> str:
    if n < 0:
        raise IndexError("negative width")
    return s.ljust(n % 8, "*")


def quote(s: str) -> str:
    return "'" + s + '"' + "\\"


def encode(s: str) -> bytes:
    return s.encode("utf-8")
