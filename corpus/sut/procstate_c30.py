"""SUT used by the C30 check: every function touches one process-global resource."""
import io
import logging
import os
import random
import sys

R = random.Random(5)
COUNTER = 0
LOG = logging.getLogger("procstate_c30")
LOG.setLevel(logging.INFO)
LOG.propagate = False
LOG.addHandler(logging.NullHandler())


def do_print():
    print("x")


def do_print_err():
    print("x", file=sys.stderr)


def close_out():
    sys.stdout.close()


def close_err():
    sys.stderr.close()


def close_in():
    sys.stdin.close()


def set_out():
    sys.stdout = io.StringIO()


def read_in():
    sys.stdin.read(0)


def os_close(fd):
    os.close(fd)


def os_fstat(fd):
    os.fstat(fd)


def log_disable(level):
    logging.disable(level)


def log_check():
    # the effective behaviour of an existing logger (isEnabledFor caches its answer per logger)
    if not LOG.isEnabledFor(logging.ERROR):
        raise RuntimeError("logging disabled")


def log_emit():
    LOG.error("something happened")


def seed(x):
    random.seed(x)


def seed_none():
    R.seed()


def draw():
    if random.random() < 0.5:
        raise RuntimeError("low")


def draw_inst():
    if R.random() < 0.5:
        raise RuntimeError("low")


def do_raise():
    raise KeyError("boom")


def bump():
    global COUNTER
    COUNTER += 1


def read_counter():
    if COUNTER % 2:
        raise RuntimeError("odd")


# ---- functions that run into the executor's time-out ----------------------------------------------
# Straight-line code on purpose: after the entry of the function no instrumentation probe fires, so the
# condemned thread really performs the late action while the executor waits in its grace join.
import time  # noqa: E402


def t_log_late(delay, level):
    time.sleep(delay)
    logging.disable(level)


def t_log_early(level, delay):
    logging.disable(level)
    time.sleep(delay)


def t_log_both(first, delay, second):
    logging.disable(first)
    time.sleep(delay)
    logging.disable(second)


def t_log_emit_late(delay, level):
    time.sleep(delay)
    logging.disable(level)
    LOG.error("late")


def t_close_out_late(delay):
    time.sleep(delay)
    sys.stdout.close()


def t_close_err_early(delay):
    sys.stderr.close()
    time.sleep(delay)


def t_set_out_late(delay):
    time.sleep(delay)
    sys.stdout = io.StringIO()


def t_close_in_late(delay):
    time.sleep(delay)
    sys.stdin.close()


def t_os_close_late(delay, fd):
    time.sleep(delay)
    os.close(fd)


def t_os_close_early(fd, delay):
    os.close(fd)
    time.sleep(delay)


def t_seed_late(delay, x):
    time.sleep(delay)
    random.seed(x)


def t_mixed(level, x, delay, fd, level2):
    logging.disable(level)
    random.seed(x)
    time.sleep(delay)
    os.close(fd)
    sys.stdout.close()
    logging.disable(level2)
