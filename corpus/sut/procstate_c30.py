"""SUT used by the C30 check: every function touches one process-global resource."""
import io
import logging
import os
import random
import sys

R = random.Random(5)
COUNTER = 0


def do_print():
    print("x")


def do_print_err():
    print("x", file=sys.stderr)


def close_out():
    sys.stdout.close()


def close_err():
    sys.stderr.close()


def close_in():
    sys.stdin.close()


def set_out():
    sys.stdout = io.StringIO()


def read_in():
    sys.stdin.read(0)


def os_close(fd):
    os.close(fd)


def os_fstat(fd):
    os.fstat(fd)


def log_disable(level):
    logging.disable(level)


def log_check():
    if logging.root.manager.disable >= logging.ERROR:
        raise RuntimeError("logging disabled")


def seed(x):
    random.seed(x)


def seed_none():
    R.seed()


def draw():
    if random.random() < 0.5:
        raise RuntimeError("low")


def draw_inst():
    if R.random() < 0.5:
        raise RuntimeError("low")


def do_raise():
    raise KeyError("boom")


def bump():
    global COUNTER
    COUNTER += 1


def read_counter():
    if COUNTER % 2:
        raise RuntimeError("odd")
