import json,sys
props={json.loads(l)['id']:json.loads(l) for l in open('/verif/properties.jsonl')}
def prompt(pid, n=3):
    p=props[pid]
    wt=f"/var/tmp/seed_{pid}"
    return f"""You are a careful adversarial software engineer. The Python project se2p/pynguin (a search-based unit test generator) lives in the git repository /repo. Create your own scratch worktree and work ONLY there:  git -C /repo worktree add {wt} HEAD   (do not modify /repo itself, do not read or use anything under /verif — that directory is off limits for you). Python is /venv/bin/python; run code with PYTHONPATH={wt}/src ; env PYNGUIN_DANGER_AWARE=1 is needed to run pynguin itself. There is no network.

A semantic property of the system is stated below. Your task: write {n} DIFFERENT realistic changes (bugs) to the source under {wt}/src/pynguin, each of which BREAKS this property while the code still compiles/imports and the existing test suite still passes. Prefer changes that need something specific to manifest — a particular multi-step sequence of operations, an unusual input (boundary value, NaN, empty, duplicate, one-shot iterator, negative index...), a particular interleaving or crash point, or two cooperating sites that each look fine alone — NOT ones that ordinary use would expose at once. Each change should look like a plausible slip or an innocent-looking refactoring/optimisation a maintainer might merge, 1-15 changed lines, in the files the property is anchored in (listed below) or their direct collaborators.

Property {pid} — {p['title']}
Statement: {p['statement']}
Quantified over: {p['quantifier']['text']}
Anchored in: {json.dumps(p['anchors']['files'])}; mechanisms: {json.dumps(p['anchors'].get('mechanism', []))}

For EACH change i = 1..{n} produce, under /var/tmp/seedout_{pid}/m<i>/ :
  patch.diff   — `git diff` of exactly that one change against the worktree HEAD (applies with `git apply` to a clean checkout of HEAD);
  demo.py      — a small self-contained program (run as: PYTHONPATH=<repo>/src PYNGUIN_DANGER_AWARE=1 /venv/bin/python demo.py) that exits 0 and prints PASS on the unchanged code and exits 1 and prints FAIL (with what went wrong) when the change is applied; it must demonstrate a violation of the property as stated, deterministically;
  meta.json    — {{"property": "{pid}", "title": "<one line>", "needs": "<what specific input/sequence/interleaving it needs to manifest>", "files": [...], "why_tests_miss_it": "..."}}.
Procedure per change: make the edit in the worktree; run the relevant existing tests (cd {wt} && /venv/bin/python -m pytest -q -p no:cacheprovider -x tests/<relevant dirs>) AND finally the full suite once per change (cd {wt} && /venv/bin/python -m pytest -q -p no:cacheprovider --timeout=900 2>&1 | tail -5 ; about 1-3 minutes; note that ~21 tests under tests/large_language_model and tests/analyses/test_type_inference fail and 17 error even on the unchanged code — ignore those, and also ignore failures of tests/test_naming, tests/testcase/test_export canonical-import and subprocess-unpickling tests that only fail because the worktree is not located at /repo; the set of other failing tests must be empty); confirm demo.py FAILs with the change and PASSes without it (save your change with `git diff > /var/tmp/seedout_{pid}/cur.diff`, `git checkout -- .`, later `git apply` it again; NEVER use `git stash`: the stash is shared by all worktrees of /repo and other agents work concurrently); save the three files; then `git checkout -- .` before starting the next change. If a candidate change makes an existing test fail, discard it and find another.
When done, remove your worktree (git -C /repo worktree remove --force {wt}) but keep /var/tmp/seedout_{pid}/ . Reply with a brief list of the changes (title, file, what manifests it) and the verification you ran."""
if __name__=="__main__":
    print(prompt(sys.argv[1], int(sys.argv[2]) if len(sys.argv)>2 else 3))
